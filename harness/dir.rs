// harnesses for dir (included into /repo/src/dir.rs under cfg(kani))
