// Harnesses for src/dir.rs (C03, C04, C15, C16, C17, C19). Included as `crate::dir::verif` under cfg(kani).
use super::*;
use crate::verif_support::dev::TotDev;
use crate::verif_support::spec;

#[cfg(feature = "lfn")]
pub(crate) fn lfn_buffer_from(units: &[u16]) -> LfnBuffer { LfnBuffer::from_ucs2_units(units.iter().copied()) }

// ------------------------------------------------------------------------------------------- checksum, paths

/// C16/C03: the long-name checksum is the specification's rotate-right-and-add over the 11 short-name bytes.
#[kani::proof]
#[kani::unwind(14)]
fn lfn_checksum_spec() {
    let sfn: [u8; SFN_SIZE] = kani::any();
    assert!(lfn_checksum(&sfn) == spec::lfn_checksum(&sfn));
}

/// C01 (unit): split_path strips surrounding slashes and splits at the first inner slash.
#[kani::proof]
#[kani::unwind(10)]
#[kani::stub(core::slice::memchr::memchr, crate::verif_support::stubs::memchr)]
#[kani::stub(core::slice::memchr::memrchr, crate::verif_support::stubs::memrchr)]
fn split_path_spec() {
    let b: [u8; 6] = kani::any();
    let len: usize = kani::any();
    kani::assume(len <= 6);
    let mut i = 0;
    while i < 6 { kani::assume(b[i] == b'/' || b[i] == b'a' || b[i] == b'.'); i += 1; }
    let path = unsafe { core::str::from_utf8_unchecked(&b[..len]) };
    let (first, rest) = split_path(path);
    // reference: skip leading slashes, component up to the next slash, remainder up to (excluding) trailing slashes
    let mut s = 0;
    while s < len && b[s] == b'/' { s += 1; }
    let mut e = len;
    while e > s && b[e - 1] == b'/' { e -= 1; }
    let mut m = s;
    while m < e && b[m] != b'/' { m += 1; }
    assert!(first.as_bytes() == &b[s..m]);
    match rest {
        None => assert!(m == e),
        Some(r) => { assert!(m < e); assert!(r.as_bytes() == &b[m + 1..e]); }
    }
    kani::cover!(rest.is_some() && s > 0 && e < len);
    kani::cover!(first.is_empty());
}

// ------------------------------------------------------------------------------------------- name validation (C15)

fn spec_char_ok(c: u32) -> bool {
    if c >= 0x80 { return c <= 0xFFFF; }
    let b = c as u8;
    (b >= b'a' && b <= b'z') || (b >= b'A' && b <= b'Z') || (b >= b'0' && b <= b'9')
        || matches!(b, b'$' | b'%' | b'\'' | b'-' | b'_' | b'@' | b'~' | b'`' | b'!' | b'(' | b')' | b'{' | b'}' | b'.' | b' ' | b'+'
                       | b',' | b';' | b'=' | b'[' | b']' | b'^' | b'#' | b'&')
}

/// C15: validate_long_name on every UTF-8 string of up to 4 bytes: accepted exactly when non-empty and every
/// character is in the documented long-name set; the error kind is the documented one; never panics.
#[kani::proof]
#[kani::unwind(8)]
fn validate_name_chars() {
    let b: [u8; 4] = kani::any();
    let len: usize = kani::any();
    kani::assume(len <= 4);
    let name = match core::str::from_utf8(&b[..len]) { Ok(s) => s, Err(_) => { kani::assume(false); return; } };
    let r = validate_long_name::<()>(name);
    // independent decode of the (already validated) UTF-8
    let mut all_ok = true;
    let mut i = 0;
    let mut n_chars = 0;
    while i < len {
        let b0 = b[i] as u32;
        let (c, l) = if b0 < 0x80 { (b0, 1) }
            else if b0 < 0xE0 { (((b0 & 0x1F) << 6) | (b[i + 1] as u32 & 0x3F), 2) }
            else if b0 < 0xF0 { (((b0 & 0x0F) << 12) | ((b[i + 1] as u32 & 0x3F) << 6) | (b[i + 2] as u32 & 0x3F), 3) }
            else { (((b0 & 0x07) << 18) | ((b[i + 1] as u32 & 0x3F) << 12) | ((b[i + 2] as u32 & 0x3F) << 6) | (b[i + 3] as u32 & 0x3F), 4) };
        if !spec_char_ok(c) { all_ok = false; }
        i += l;
        n_chars += 1;
    }
    match r {
        Ok(()) => assert!(len > 0 && all_ok),
        Err(Error::InvalidFileNameLength) => assert!(len == 0),
        Err(Error::UnsupportedFileNameCharacter) => assert!(len > 0 && !all_ok),
        Err(_) => assert!(false),
    }
    kani::cover!(r.is_ok() && n_chars == 1 && len == 3);      // a BMP character
    kani::cover!(r.is_err() && len == 4 && n_chars == 1);      // an astral character is rejected
    kani::cover!(r.is_ok() && b[0] == b'.' && len == 1);
}

fn name_length_case<const LEN: usize>(expect_ok: bool) {
    let buf = [b'a'; LEN];
    let name = unsafe { core::str::from_utf8_unchecked(&buf[..]) };
    match validate_long_name::<()>(name) {
        Ok(()) => assert!(expect_ok),
        Err(Error::InvalidFileNameLength) => assert!(!expect_ok),
        Err(_) => assert!(false),
    }
}
/// C15: the length rule is exact at its boundaries: 1 and 255 bytes accepted; 0, 256 and 300 bytes rejected with
/// the name-length error (one harness per concrete length; a symbolic length makes every one of the 300 loop
/// iterations conditional and did not finish in 15 min).
#[kani::proof]
#[kani::unwind(258)]
fn validate_name_len_0() { name_length_case::<0>(false); }
#[kani::proof]
#[kani::unwind(258)]
fn validate_name_len_1() { name_length_case::<1>(true); }
#[kani::proof]
#[kani::unwind(258)]
fn validate_name_len_255() { name_length_case::<255>(true); }
#[kani::proof]
#[kani::unwind(258)]
fn validate_name_len_256() { name_length_case::<256>(false); }
#[kani::proof]
#[kani::unwind(258)]
fn validate_name_len_300() { name_length_case::<300>(false); }
/// C15: every length 0..=12 in one query (symbolic length).
#[kani::proof]
#[kani::unwind(14)]
fn validate_name_len_small() {
    let buf = [b'a'; 12];
    let len: usize = kani::any();
    kani::assume(len <= 12);
    let name = unsafe { core::str::from_utf8_unchecked(&buf[..len]) };
    assert!(validate_long_name::<()>(name).is_ok() == (len >= 1));
}

// ------------------------------------------------------------------------------------------- short names (C15, C16)

fn sfn_byte_legal(b: u8) -> bool {
    (b >= b'A' && b <= b'Z') || (b >= b'0' && b <= b'9')
        || matches!(b, b'!' | b'#' | b'$' | b'%' | b'&' | b'\'' | b'(' | b')' | b'-' | b'@' | b'^' | b'_' | b'`' | b'{' | b'}' | b'~')
}

/// An 11-byte alias is legal: upper case / digits / allowed punctuation, base non-empty, padding only at the end of
/// base and extension (no leading or embedded space), no dot, not a deleted/end marker.
fn alias_legal(a: &[u8; 11]) -> bool {
    if a[0] == b' ' || a[0] == 0xE5 || a[0] == 0 { return false; }
    let mut seen_pad = false;
    let mut i = 0;
    while i < 8 {
        if a[i] == b' ' { seen_pad = true; } else { if seen_pad || !sfn_byte_legal(a[i]) { return false; } }
        i += 1;
    }
    seen_pad = false;
    while i < 11 {
        if a[i] == b' ' { seen_pad = true; } else { if seen_pad || !sfn_byte_legal(a[i]) { return false; } }
        i += 1;
    }
    true
}

fn any_name<const N: usize>(buf: &[u8; N], len: usize) -> Option<&str> {
    core::str::from_utf8(&buf[..len]).ok()
}

/// C15: deriving the short-name state from ANY UTF-8 string of up to 5 bytes (empty, multi-byte first character,
/// only dots/spaces, ...) never panics.
#[kani::proof]
#[kani::unwind(8)]
#[kani::stub(core::slice::memchr::memchr, crate::verif_support::stubs::memchr)]
#[kani::stub(core::slice::memchr::memrchr, crate::verif_support::stubs::memrchr)]
fn sng_new_total() {
    let b: [u8; 5] = kani::any();
    let len: usize = kani::any();
    kani::assume(len <= 5);
    let name = match any_name(&b, len) { Some(s) => s, None => { kani::assume(false); return; } };
    let g = ShortNameGenerator::new(name);
    assert!(g.basename_len <= 8);
    kani::cover!(len == 0);
    kani::cover!(len >= 2 && b[0] >= 0xC2);
    kani::cover!(len == 3 && b[0] == b'.' && b[1] == b'.');
}

fn any_accepted_name<const N: usize>(b: &[u8; N], len: usize) -> &str {
    // names that pass validate_long_name, 1..=N bytes of valid UTF-8
    let name = match core::str::from_utf8(&b[..len]) { Ok(s) => s, Err(_) => { kani::assume(false); "" } };
    kani::assume(validate_long_name::<()>(name).is_ok());
    name
}

fn any_gen_state(g: &mut ShortNameGenerator) {
    g.long_prefix_bitmap = kani::any();
    g.prefix_chksum_bitmap = kani::any();
    g.exact_match = kani::any();
    g.chksum = kani::any();   // any retry iteration
}

/// C16: whatever the collision state, a generated alias is legal in every byte.
fn alias_is_legal_check<const N: usize>() {
    let b: [u8; N] = kani::any();
    let len: usize = kani::any();
    kani::assume(len >= 1 && len <= N);
    let name = any_accepted_name(&b, len);
    let mut g = ShortNameGenerator::new(name);
    any_gen_state(&mut g);
    match g.generate() {
        Ok(a) => {
            assert!(alias_legal(&a));
            kani::cover!(a[1] == b'~' || a[2] == b'~' || a[3] == b'~' || a[4] == b'~' || a[5] == b'~' || a[6] == b'~');
            kani::cover!(a[5] == b'~' || a[6] == b'~' || a[7] == b'~');   // hash form "xxHHHH~n" / long prefix
            kani::cover!(!g.lossy_conv && g.name_fits && a[0] == b[0]);
        }
        Err(_) => {
            // failure only when every numeric tail of both forms is taken
            assert!(g.long_prefix_bitmap & 0x1E == 0x1E && g.prefix_chksum_bitmap & 0x3FE == 0x3FE);
            kani::cover!(true);
        }
    }
}
#[kani::proof]
#[kani::unwind(12)]
#[kani::stub(core::slice::memchr::memchr, crate::verif_support::stubs::memchr)]
#[kani::stub(core::slice::memchr::memrchr, crate::verif_support::stubs::memrchr)]
fn alias_is_legal() { alias_is_legal_check::<5>(); }
#[kani::proof]
#[kani::unwind(12)]
#[kani::stub(core::slice::memchr::memchr, crate::verif_support::stubs::memchr)]
#[kani::stub(core::slice::memchr::memrchr, crate::verif_support::stubs::memrchr)]
fn alias_is_legal_8bytes() { alias_is_legal_check::<8>(); }

/// C16 (uniqueness lemma): after an existing raw short name `e` has been fed to the generator, the generator never
/// produces `e`. By induction over the directory scan the alias differs from every existing entry.
fn alias_never_equals_existing_check<const N: usize>() {
    let b: [u8; N] = kani::any();
    let len: usize = kani::any();
    kani::assume(len >= 1 && len <= N);
    let name = any_accepted_name(&b, len);
    let mut g = ShortNameGenerator::new(name);
    any_gen_state(&mut g);
    let e: [u8; SFN_SIZE] = kani::any();
    g.add_existing(&e);
    // monotone: feeding more entries only sets more bits
    let e2: [u8; SFN_SIZE] = kani::any();
    let before = (g.long_prefix_bitmap, g.prefix_chksum_bitmap, g.exact_match);
    g.add_existing(&e2);
    assert!(g.long_prefix_bitmap & before.0 == before.0 && g.prefix_chksum_bitmap & before.1 == before.1 && (g.exact_match || !before.2));
    if let Ok(a) = g.generate() {
        assert!(a != e);
        assert!(a != e2);
        kani::cover!(a[1] == b'~' || a[2] == b'~' || a[3] == b'~' || a[4] == b'~' || a[5] == b'~' || a[6] == b'~');
    }
}
#[kani::proof]
#[kani::unwind(12)]
#[kani::stub(core::slice::memchr::memchr, crate::verif_support::stubs::memchr)]
#[kani::stub(core::slice::memchr::memrchr, crate::verif_support::stubs::memrchr)]
fn alias_never_equals_existing() { alias_never_equals_existing_check::<5>(); }
#[kani::proof]
#[kani::unwind(12)]
#[kani::stub(core::slice::memchr::memchr, crate::verif_support::stubs::memchr)]
#[kani::stub(core::slice::memchr::memrchr, crate::verif_support::stubs::memrchr)]
fn alias_never_equals_existing_8bytes() { alias_never_equals_existing_check::<8>(); }

fn alias_unique_for(name: &str) {
    let mut g = ShortNameGenerator::new(name);
    any_gen_state(&mut g);
    let e: [u8; SFN_SIZE] = kani::any();
    g.add_existing(&e);
    if let Ok(a) = g.generate() {
        assert!(a != e);
        assert!(alias_legal(&a));
    }
    kani::cover!(g.generate().is_ok());
}
/// C16 (uniqueness lemma, quick tier): the same lemma for fixed names of each shape (fits 8.3, too long, lossy, with
/// and without extension, leading dot, non-ASCII) with EVERY collision state and EVERY existing entry.
macro_rules! alias_unique_case {
    ($name:ident, $s:expr) => {
        #[kani::proof]
        #[kani::unwind(24)]
        #[kani::stub(core::slice::memchr::memchr, crate::verif_support::stubs::memchr)]
        #[kani::stub(core::slice::memchr::memrchr, crate::verif_support::stubs::memrchr)]
        fn $name() { alias_unique_for($s); }
    };
}
alias_unique_case!(alias_unique_fits, "readme.txt");
alias_unique_case!(alias_unique_long, "A Long File Name.html");
alias_unique_case!(alias_unique_one_char, "x");
alias_unique_case!(alias_unique_leading_dot, ".profile");
alias_unique_case!(alias_unique_non_ascii, "caf\u{e9} au lait");
alias_unique_case!(alias_unique_lossy, "a+b.c d");

/// C16 (termination lemma): a retry changes the hash, clears both bitmaps and keeps everything else, so the next
/// scan can only fail again if 13 more colliding entries exist for the NEW hash.
fn alias_retry_progress_check<const N: usize>() {
    let b: [u8; N] = kani::any();
    let len: usize = kani::any();
    kani::assume(len >= 1 && len <= N);
    let name = any_accepted_name(&b, len);
    let mut g = ShortNameGenerator::new(name);
    any_gen_state(&mut g);
    let old = g.clone();
    g.next_iteration();
    assert!(g.chksum == old.chksum.wrapping_add(1));
    assert!(g.long_prefix_bitmap == 0 && g.prefix_chksum_bitmap == 0);
    assert!(g.short_name == old.short_name && g.basename_len == old.basename_len && g.name_fits == old.name_fits && g.lossy_conv == old.lossy_conv);
    // with cleared bitmaps generation succeeds
    assert!(g.generate().is_ok());
    let x: u16 = kani::any();
    let h = ShortNameGenerator::u16_to_hex(x);
    let d = |v: u16| if v < 10 { b'0' + v as u8 } else { b'A' + (v as u8 - 10) };
    assert!(h == [d(x >> 12), d((x >> 8) & 15), d((x >> 4) & 15), d(x & 15)]);
}
#[kani::proof]
#[kani::unwind(12)]
#[kani::stub(core::slice::memchr::memchr, crate::verif_support::stubs::memchr)]
#[kani::stub(core::slice::memchr::memrchr, crate::verif_support::stubs::memrchr)]
fn alias_retry_progress() { alias_retry_progress_check::<5>(); }
#[kani::proof]
#[kani::unwind(12)]
#[kani::stub(core::slice::memchr::memchr, crate::verif_support::stubs::memchr)]
#[kani::stub(core::slice::memchr::memrchr, crate::verif_support::stubs::memrchr)]
fn alias_retry_progress_8bytes() { alias_retry_progress_check::<8>(); }

/// must-fail twin: claims the generator can never fail (it must, when all 13 tails are taken).
#[kani::proof]
#[kani::unwind(12)]
#[kani::stub(core::slice::memchr::memchr, crate::verif_support::stubs::memchr)]
#[kani::stub(core::slice::memchr::memrchr, crate::verif_support::stubs::memrchr)]
fn twin_alias_generate_never_fails() {
    let mut g = ShortNameGenerator::new("a b");
    any_gen_state(&mut g);
    assert!(g.generate().is_ok());
}

// ------------------------------------------------------------------------------------------- long-name slots (C03, C04, C15, C17, C19)

#[cfg(feature = "lfn")]
fn slot_bytes(e: &DirLfnEntryData) -> [u8; 32] {
    let mut dev = TotDev::<32>::new([0xEE; 32]);
    assert!(e.serialize(&mut dev).is_ok());
    assert!(!dev.oob && dev.pos == 32);
    dev.data
}

#[cfg(feature = "lfn")]
fn lfn_gen_check<const COUNT: usize, const LEN: usize>() {
    // the name LENGTH is concrete per harness (a symbolic slice length turns every chunk copy into a symbolic-size
    // memcpy, which exhausts memory in CBMC); the units, the checksum and the short name are symbolic
    let units: [u16; LEN] = kani::any();
    let len: usize = LEN;
    assert!(COUNT == (LEN + 12) / 13);
    let chk: u8 = kani::any();
    let mut gen = LfnEntriesGenerator::new(&units[..len], chk);
    assert!(gen.len() == COUNT);
    let mut builder = LongNameBuilder::new();
    let u: usize = kani::any();
    kani::assume(u < 13);
    let mut i = 0;
    while i < COUNT {
        let e = match gen.next() { Some(e) => e, None => { assert!(false); return; } };
        let raw = slot_bytes(&e);
        // independent parse of the raw slot
        let ord = (COUNT - i) as u8;
        assert!(raw[0] == if i == 0 { ord | 0x40 } else { ord });
        assert!(raw[11] == 0x0F && raw[12] == 0 && raw[13] == chk && raw[26] == 0 && raw[27] == 0);
        let pos = (COUNT - i - 1) * 13 + u;
        let exp = if pos < len { units[pos] } else if pos == len { 0 } else { 0xFFFF };
        assert!(spec::lfn_unit(&raw, u) == exp);
        // the order byte was just shown to equal the constant: hand the builder a slot carrying that constant, so
        // that buffer sizes stay concrete (a symbolic Vec size exhausts memory in CBMC)
        let mut e2 = DirLfnEntryData::new(if i == 0 { ord | 0x40 } else { ord }, e.checksum());
        let mut part = [0u16; 13];
        e.copy_name_to_slice(&mut part);
        e2.copy_name_from_slice(&part);
        builder.process(&e2);
        i += 1;
    }
    assert!(gen.next().is_none());
    // decode side (fixed-buffer build; in the alloc build the accepting path of the Vec-backed builder exhausts
    // CBMC's memory, measured at 24 GB and 65 GB): the builder returns exactly the original units
    #[cfg(not(feature = "alloc"))]
    {
        let sfn: [u8; SFN_SIZE] = kani::any();
        kani::assume(spec::lfn_checksum(&sfn) == chk);
        builder.validate_chksum(&sfn);
        let out = builder.into_buf();
        // names ENDING in a 0x0000/0xFFFF unit cannot be represented (they look like padding); the validator never
        // produces them from a str, so they are excluded
        kani::assume(units[len - 1] != 0 && units[len - 1] != 0xFFFF);
        assert!(out.len() == len);
        let k: usize = kani::any();
        kani::assume(k < len);
        assert!(out.as_ucs2_units()[k] == units[k]);
    }
    #[cfg(feature = "alloc")]
    core::mem::forget(builder);
    kani::cover!(units[0] >= 0xD800 && units[0] < 0xDC00);
}
/// C03/C04/C15/C19: LfnEntriesGenerator output, parsed independently: slot count, descending order with 0x40 on
/// the first, attribute 0x0F, zero type/cluster, checksum in every slot, 0x0000 terminator then 0xFFFF padding;
/// LongNameBuilder decodes the same slots back to the identical units. One harness per name length (around every
/// slot boundary); run in both builds (alloc / fixed buffer).
macro_rules! lfn_gen_case {
    ($name:ident, $count:expr, $len:expr) => {
        #[cfg(feature = "lfn")]
        #[kani::proof]
        #[cfg_attr(feature = "alloc", kani::unwind(42))]
        #[cfg_attr(not(feature = "alloc"), kani::unwind(264))]
        fn $name() { lfn_gen_check::<$count, $len>(); }
    };
}
lfn_gen_case!(lfn_generate_and_decode_len1, 1, 1);
lfn_gen_case!(lfn_generate_and_decode_len5, 1, 5);
lfn_gen_case!(lfn_generate_and_decode_len12, 1, 12);
lfn_gen_case!(lfn_generate_and_decode_len13, 1, 13);
lfn_gen_case!(lfn_generate_and_decode_len14, 2, 14);
lfn_gen_case!(lfn_generate_and_decode_len26, 2, 26);
lfn_gen_case!(lfn_generate_and_decode_len27, 3, 27);
lfn_gen_case!(lfn_generate_and_decode_len39, 3, 39);

#[cfg(feature = "lfn")]
fn any_lfn_slot() -> DirLfnEntryData {
    let mut e = DirLfnEntryData::new(kani::any(), kani::any());
    let part: [u16; LFN_PART_LEN] = kani::any();
    e.copy_name_from_slice(&part);
    e
}

/// Builder invariant: nothing pending (index 0, empty buffer), or 1 <= index <= k <= 20 with a buffer of exactly 13*k units.
#[cfg(all(feature = "lfn", not(feature = "alloc")))]
fn any_builder_state() -> LongNameBuilder {
    let k: usize = kani::any();
    kani::assume(k <= MAX_LONG_DIR_ENTRIES);
    let index: u8 = kani::any();
    kani::assume((index as usize) <= k);
    // (the buffer is built through its own API, so that the harness does not depend on the representation of `len`)
    let mut buf = LfnBuffer { ucs2_units: kani::any(), ..LfnBuffer::new() };
    buf.set_len(k * LFN_PART_LEN);
    kani::assume(buf.len() == k * LFN_PART_LEN);
    LongNameBuilder { buf, chksum: kani::any(), index }
}
#[cfg(all(feature = "lfn", not(feature = "alloc")))]
fn builder_inv(b: &LongNameBuilder) -> bool {
    b.buf.len() % LFN_PART_LEN == 0 && b.buf.len() <= LONG_NAME_BUFFER_LEN && (b.index as usize) * LFN_PART_LEN <= b.buf.len()
        && (b.index != 0 || b.buf.len() == 0)          // nothing pending <=> empty buffer (clear() / new())
}

/// C17 (inductive step, fixed-buffer build): from ANY builder state satisfying the invariant, processing ANY slot
/// neither panics nor indexes out of bounds, and the invariant holds again. Covers runs of any length.
#[cfg(all(feature = "lfn", not(feature = "alloc")))]
#[kani::proof]
#[kani::unwind(264)]
fn lnb_step_inductive() {
    let mut b = any_builder_state();
    kani::assume(builder_inv(&b));
    let e = any_lfn_slot();
    b.process(&e);
    assert!(builder_inv(&b));
    kani::cover!(b.index == 20);
    kani::cover!(b.index == 0 && e.order() & 0x40 == 0);
}

/// C17 (fixed-buffer build): finishing from ANY invariant state yields at most 255 units, and an empty name unless
/// the run was complete (index 1) and the checksum matched.
#[cfg(all(feature = "lfn", not(feature = "alloc")))]
#[kani::proof]
#[kani::unwind(264)]
fn lnb_finish_bounded() {
    let mut b = any_builder_state();
    kani::assume(builder_inv(&b));
    let complete = b.index == 1;
    let chk = b.chksum;
    let sfn: [u8; SFN_SIZE] = kani::any();
    b.validate_chksum(&sfn);
    let out = b.into_buf();
    assert!(out.len() <= 255);
    if !(complete && spec::lfn_checksum(&sfn) == chk) { assert!(out.len() == 0); }
    kani::cover!(out.len() == 255);
    kani::cover!(out.len() == 0 && complete);
}

#[cfg(feature = "lfn")]
fn feed(b: &mut LongNameBuilder, ord: u8, chk: u8, part: &[u16; 13]) {
    let mut e = DirLfnEntryData::new(ord, chk);
    e.copy_name_from_slice(part);
    b.process(&e);
}

#[cfg(feature = "lfn")]
fn lnb_sequence_check<const NS: usize>(fixed: Option<[u8; NS]>) {
    // NS slots in on-disk order followed by a short entry; orders restricted to 0..=3 (| 0x40)
    let ord: [u8; NS] = match fixed { Some(o) => o, None => kani::any() };
    let chk: [u8; NS] = kani::any();
    let mut p0: [u16; 13] = kani::any();
    let mut p1: [u16; 13] = kani::any();
    let mut p2: [u16; 13] = kani::any();
    if fixed.is_some() {
        // alloc build (see lfn_gen_check): constant final unit per slot keeps the truncated length constant
        p0[12] = 0x5A; p1[12] = 0x5A; p2[12] = 0x5A;
    }
    let sfn: [u8; SFN_SIZE] = kani::any();
    let mut b = LongNameBuilder::new();
    let mut i = 0;
    while i < NS {
        kani::assume(ord[i] & 0x1F <= 3 && ord[i] & 0xA0 == 0);
        let part = if i == 0 { &p0 } else if i == 1 { &p1 } else { &p2 };
        // dispatch on the order value: every call site passes a CONSTANT order, which keeps the Vec sizes of the
        // alloc build concrete (a symbolic size exhausts memory in CBMC)
        match ord[i] {
            0x00 => feed(&mut b, 0x00, chk[i], part), 0x01 => feed(&mut b, 0x01, chk[i], part), 0x02 => feed(&mut b, 0x02, chk[i], part),
            0x03 => feed(&mut b, 0x03, chk[i], part), 0x40 => feed(&mut b, 0x40, chk[i], part), 0x41 => feed(&mut b, 0x41, chk[i], part),
            0x42 => feed(&mut b, 0x42, chk[i], part), _ => feed(&mut b, 0x43, chk[i], part),
        }
        i += 1;
    }
    b.validate_chksum(&sfn);
    let out = b.into_buf();
    assert!(out.len() <= 39);
    // reference: the run starts at the LAST slot carrying the 0x40 flag
    let mut j = NS;
    i = 0;
    while i < NS { if ord[i] & 0x40 != 0 { j = i; } i += 1; }
    let mut well_formed = j < NS;
    let n = NS - j;                                   // slots in the run
    let sum = spec::lfn_checksum(&sfn);
    i = 0;
    while i < NS {
        if i >= j {
            let expect_ord = (NS - i) as u8;             // n, n-1, ..., 1
            if ord[i] & 0x1F != expect_ord || chk[i] != sum { well_formed = false; }
            if i > j && ord[i] & 0x40 != 0 { well_formed = false; }
        }
        i += 1;
    }
    if !well_formed {
        // a broken run falls back to the short name: no partial or foreign long name
        assert!(out.len() == 0);
    } else {
        // the name consists of the run's units in order; only trailing 0x0000 / 0xFFFF units are stripped
        assert!(out.len() <= n * 13);
        let u: usize = kani::any();
        kani::assume(u < 13);
        i = 0;
        while i < NS {
            if i >= j {
                let pos = (NS - 1 - i) * 13 + u;
                let unit = if i == 0 { p0[u] } else if i == 1 { p1[u] } else { p2[u] };
                if pos < out.len() { assert!(out.as_ucs2_units()[pos] == unit); }
            }
            i += 1;
        }
        if out.len() > 0 { let l = out.as_ucs2_units()[out.len() - 1]; assert!(l != 0 && l != 0xFFFF); }
    }
    kani::cover!(fixed.is_some() || (well_formed && j == 0 && out.len() == NS * 13));
    kani::cover!(fixed.is_some() || NS == 1 || (well_formed && j > 0));           // orphan slots before the run are ignored
    kani::cover!(fixed.is_some() || (!well_formed && j < NS));
    kani::cover!(fixed.is_none() || out.len() == 0);
    core::mem::forget(out);
}
/// C17/C19 (fixed-buffer build): ANY sequence of 2 / 3 long-name slots (orders 0..3, flag free) + short entry,
/// against an independent definition of a well-formed run: broken => empty (short-name fallback); well-formed =>
/// exactly the run's units.
#[cfg(all(feature = "lfn", not(feature = "alloc")))]
#[kani::proof]
#[kani::unwind(264)]
fn lnb_sequences_2() { lnb_sequence_check::<2>(None); }
#[cfg(all(feature = "lfn", not(feature = "alloc")))]
#[kani::proof]
#[kani::unwind(264)]
fn lnb_sequences_3() { lnb_sequence_check::<3>(None); }

/// C17/C19 (alloc build): the same oracle for CONCRETE broken order patterns (checksums and units symbolic): every
/// one must fall back to the short name. Symbolic orders (symbolic Vec sizes) and the accepting path of the
/// Vec-backed builder exhaust CBMC's memory here (24-65 GB, measured); the accepting path is decided in the
/// fixed-buffer build, which shares the LongNameBuilder source, plus lfn_buffer_contract for the Vec-backed buffer.
macro_rules! lnb_pattern {
    ($name:ident, $ns:expr, $orders:expr) => {
        #[cfg(all(feature = "lfn", feature = "alloc"))]
        #[kani::proof]
        #[kani::unwind(42)]
        fn $name() { lnb_sequence_check::<$ns>(Some($orders)); }
    };
}
lnb_pattern!(lnb_pattern_gap, 2, [0x43, 0x01]);
lnb_pattern!(lnb_pattern_no_last_flag, 2, [0x02, 0x01]);
lnb_pattern!(lnb_pattern_longer_then_shorter, 3, [0x43, 0x41, 0x00]);
lnb_pattern!(lnb_pattern_incomplete3, 3, [0x43, 0x02, 0x02]);

/// C17 (alloc build): a full 20-slot run (orders 0x54, 19, ..., 1) yields at most 255 units.
#[cfg(all(feature = "lfn", feature = "alloc"))]
#[kani::proof]
#[kani::unwind(264)]
fn lnb_twenty_slots() {
    let mut b = LongNameBuilder::new();
    let chk: u8 = kani::any();
    let mut part: [u16; 13] = kani::any();
    part[12] = 0x5A;
    let mut i = 20u8;
    while i >= 1 {
        feed(&mut b, if i == 20 { 0x54 } else { i }, chk, &part);
        i -= 1;
    }
    let sfn: [u8; SFN_SIZE] = kani::any();
    b.validate_chksum(&sfn);
    let out = b.into_buf();
    assert!(out.len() <= 255);
    kani::cover!(spec::lfn_checksum(&sfn) == chk);
    core::mem::forget(out);
}

/// C17/C15/C19 (both long-name builds): a complete, well-formed 20-slot run carrying a 255-unit name (orders 0x54,19..1;
/// the first slot on disk holds 8 units, the terminator and padding) decodes to exactly those 255 units when the
/// checksum matches the short name, and to nothing otherwise. This is the longest legal name: 20 slots are accepted.
#[cfg(feature = "lfn")]
#[kani::proof]
#[kani::unwind(264)]
fn lnb_twenty_slots_exact() {
    let mut b = LongNameBuilder::new();
    let chk: u8 = kani::any();
    let mut first: [u16; 13] = kani::any();
    first[7] = 0x5A; first[8] = 0; first[9] = 0xFFFF; first[10] = 0xFFFF; first[11] = 0xFFFF; first[12] = 0xFFFF;
    let part: [u16; 13] = kani::any();
    feed(&mut b, 0x54, chk, &first);
    let mut i = 19u8;
    while i >= 1 {
        feed(&mut b, i, chk, &part);
        i -= 1;
    }
    let sfn: [u8; SFN_SIZE] = kani::any();
    b.validate_chksum(&sfn);
    let out = b.into_buf();
    if spec::lfn_checksum(&sfn) == chk {
        assert!(out.len() == 255);
        assert!(out.as_ucs2_units()[0] == part[0] && out.as_ucs2_units()[246] == part[12]);
        assert!(out.as_ucs2_units()[247] == first[0] && out.as_ucs2_units()[254] == 0x5A);
    } else {
        assert!(out.len() == 0);
    }
    kani::cover!(spec::lfn_checksum(&sfn) == chk);
    kani::cover!(spec::lfn_checksum(&sfn) != chk);
    core::mem::forget(out);
}

/// C19 (alloc build): the Vec-backed LfnBuffer honours the same contract as the fixed array: set_len keeps the
/// prefix, zero-fills growth, len()/as_ucs2_units() agree, clear() empties.
#[cfg(all(feature = "lfn", feature = "alloc"))]
#[kani::proof]
#[kani::unwind(42)]
fn lfn_buffer_contract() {
    let mut b = LfnBuffer::new();
    assert!(b.len() == 0);
    b.set_len(13);
    let x: u16 = kani::any();
    let i: usize = kani::any();
    kani::assume(i < 13);
    b.ucs2_units[i] = x;
    b.set_len(26);
    let k: usize = kani::any();
    kani::assume(k >= 13 && k < 26);
    assert!(b.len() == 26 && b.as_ucs2_units().len() == 26 && b.as_ucs2_units()[i] == x && b.as_ucs2_units()[k] == 0);
    b.set_len(13);
    assert!(b.len() == 13 && b.as_ucs2_units()[i] == x);
    b.clear();
    assert!(b.len() == 0 && b.as_ucs2_units().is_empty());
    let src: [u16; 5] = kani::any();
    let c = LfnBuffer::from_ucs2_units(src.iter().copied());
    assert!(c.len() == 5 && c.as_ucs2_units()[4] == src[4]);
    core::mem::forget(b);
    core::mem::forget(c);
}

/// must-fail twin: claims a run is always accepted.
#[cfg(feature = "lfn")]
#[kani::proof]
#[cfg_attr(feature = "alloc", kani::unwind(42))]
#[cfg_attr(not(feature = "alloc"), kani::unwind(264))]
fn twin_lnb_always_yields_name() {
    let s = any_lfn_slot();
    kani::assume(s.order() == 0x41);
    let sfn: [u8; SFN_SIZE] = kani::any();
    let mut b = LongNameBuilder::new();
    b.process(&s);
    b.validate_chksum(&sfn);
    let out = b.into_buf();
    assert!(out.len() > 0);
    core::mem::forget(out);
}

/// Dir-level step harnesses (separate file).
pub(crate) mod ops { include!(concat!(env!("FATFS_VERIF_HARNESS"), "/dirops.rs")); }

/// C16/C19: `copy_short_name_part` against a reference written on BYTES (independent of `chars()` and of any case
/// table): spaces and dots are dropped, the listed ASCII characters are copied with ASCII letters upper-cased, every
/// other character - in particular EVERY non-ASCII character, whatever its Unicode upper case is - becomes one '_'.
/// Same reference in the build with and without the unicode feature, so the alias bytes cannot depend on it.
#[kani::proof]
#[kani::unwind(7)]
fn copy_short_name_part_spec() {
    let b: [u8; 5] = kani::any();
    let len: usize = kani::any();
    kani::assume(len <= 5);
    let src = match core::str::from_utf8(&b[..len]) { Ok(s) => s, Err(_) => { kani::assume(false); return; } };
    let mut dst = [b' '; 3];
    let (n, fits, lossy) = ShortNameGenerator::copy_short_name_part(&mut dst, src);
    // reference
    let mut exp = [b' '; 3];
    let mut en = 0usize;
    let mut efits = true;
    let mut elossy = false;
    let mut i = 0;
    while i < len {
        let c = b[i];
        let clen = if c < 0x80 { 1 } else if c < 0xE0 { 2 } else if c < 0xF0 { 3 } else { 4 };
        if en == 3 { efits = false; break; }
        if c == b' ' || c == b'.' { elossy = true; i += clen; continue; }
        let ok = c < 0x80 && (c.is_ascii_alphanumeric() || matches!(c, b'!' | b'#' | b'$' | b'%' | b'&' | b'\'' | b'(' | b')' | b'-' | b'@' | b'^' | b'_' | b'`' | b'{' | b'}' | b'~'));
        if ok { exp[en] = if c >= b'a' && c <= b'z' { c - 32 } else { c }; } else { exp[en] = b'_'; elossy = true; }
        en += 1;
        i += clen;
    }
    assert!(n == en && fits == efits);
    assert!(dst[0] == exp[0] && dst[1] == exp[1] && dst[2] == exp[2]);
    if efits { assert!(lossy == elossy); }
    kani::cover!(len == 2 && b[0] == 0xC3 && b[1] == 0x9F && dst[0] == b'_' && n == 1);  // sharp s -> '_' (one character)
    kani::cover!(!fits);
    kani::cover!(fits && !lossy && n == 3);
}

/// C16/C19: concrete non-ASCII characters whose Unicode upper case is ASCII or longer than one character (sharp s, dotless
/// i, long s, the fi ligature): each becomes exactly one '_' in the alias and marks the conversion lossy, whatever the
/// case table says - the alias bytes written to disk must not depend on the unicode feature.
fn copy_part_case(src: &str) {
    let mut dst = [b' '; 8];
    let (n, fits, lossy) = ShortNameGenerator::copy_short_name_part(&mut dst, src);
    assert!(n == 2 && fits && lossy);
    assert!(dst[0] == b'A' && dst[1] == b'_' && dst[2] == b' ');
}
#[kani::proof]
#[kani::unwind(16)]
fn copy_short_name_part_sharp_s() { copy_part_case("a\u{DF}"); }
#[kani::proof]
#[kani::unwind(16)]
fn copy_short_name_part_dotless_i() { copy_part_case("a\u{131}"); }
#[kani::proof]
#[kani::unwind(16)]
fn copy_short_name_part_ligature() { copy_part_case("a\u{FB01}"); }

/// C16 (uniqueness lemma over ALL generator states, not only those reachable from short names): for an arbitrary
/// 8.3 image, base-name length, flags, bitmaps and retry hash, and an arbitrary existing entry `e`: after
/// `add_existing(e)` the generator never produces `e`. In particular when `e` equals the name's own 8.3 image and
/// that image is itself a numbered form (e.g. "ABCDEF~1"). By induction over the directory scan an alias differs
/// from every entry fed to the generator.
#[kani::proof]
#[kani::unwind(12)]
fn alias_unique_any_state() {
    let basename_len: usize = kani::any();
    kani::assume(basename_len <= 8);
    let mut g = ShortNameGenerator {
        chksum: kani::any(), long_prefix_bitmap: kani::any(), prefix_chksum_bitmap: kani::any(), name_fits: kani::any(),
        lossy_conv: kani::any(), exact_match: kani::any(), basename_len, short_name: kani::any(),
    };
    let e: [u8; SFN_SIZE] = kani::any();
    g.add_existing(&e);
    if let Ok(a) = g.generate() {
        let i: usize = kani::any();
        kani::assume(i < SFN_SIZE);
        // a != e: shown as "not all bytes equal" without a comparison loop
        if a[i] != e[i] { return; }
        let mut same = true;
        let mut j = 0;
        while j < SFN_SIZE { if a[j] != e[j] { same = false; } j += 1; }
        assert!(!same);
        kani::cover!(e == g.short_name);
    }
}

/// must-fail twin (vacuity guard for the name-validation harnesses): claims every one-character ASCII name is accepted.
/// Has to be refuted (':' , '/', control characters ... are rejected).
#[kani::proof]
#[kani::unwind(8)]
fn twin_validate_accepts_every_ascii() {
    let c: u8 = kani::any();
    kani::assume(c < 0x80);
    let b = [c];
    let name = match core::str::from_utf8(&b) { Ok(s) => s, Err(_) => return };
    assert!(validate_long_name::<()>(name).is_ok());
}
