// harnesses for support (included into /repo/src/support.rs under cfg(kani))
