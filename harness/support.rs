// Shared support for the proof harnesses: device models and an independent reference ("spec") written from
// the FAT specification on plain integers/arrays. Nothing in `spec` calls fatfs code.
// Included as `crate::verif_support` under cfg(kani).

#[allow(dead_code)]
pub(crate) mod spec {
    /// Geometry derived from BPB fields, all in u64 (no wrap-around possible).
    #[derive(Clone, Copy)]
    pub(crate) struct Geo {
        pub bps: u64,
        pub spc: u64,
        pub reserved: u64,
        pub fats: u64,
        pub spf: u64,
        pub root_entries: u64,
        pub root_sectors: u64,
        pub total: u64,
        pub first_data: u64,
        pub is_fat32_by_field: bool,
    }

    pub(crate) fn geo(
        bps: u16, spc: u8, reserved: u16, fats: u8, root_entries: u16, total16: u16, total32: u32, spf16: u16, spf32: u32,
    ) -> Geo {
        let bps64 = bps as u64;
        let is32 = spf16 == 0;
        let spf = if is32 { spf32 as u64 } else { spf16 as u64 };
        let root_bytes = root_entries as u64 * 32;
        // ceil; bps may be 0 for garbage: then define root_sectors = 0 (caller rejects bps first)
        let root_sectors = if bps64 == 0 { 0 } else { (root_bytes + bps64 - 1) / bps64 };
        let total = if total16 == 0 { total32 as u64 } else { total16 as u64 };
        let first_data = reserved as u64 + fats as u64 * spf + root_sectors;
        Geo { bps: bps64, spc: spc as u64, reserved: reserved as u64, fats: fats as u64, spf, root_entries: root_entries as u64,
              root_sectors, total, first_data, is_fat32_by_field: is32 }
    }

    pub(crate) fn is_pow2(x: u64) -> bool { x != 0 && (x & (x - 1)) == 0 }

    /// 0 = FAT12, 1 = FAT16, 2 = FAT32 (Microsoft's cluster-count rule).
    pub(crate) fn width_from_clusters(clusters: u64) -> u8 {
        if clusters < 4085 { 0 } else if clusters < 65525 { 1 } else { 2 }
    }

    pub(crate) fn bits(width: u8) -> u64 { match width { 0 => 12, 1 => 16, _ => 32 } }

    /// FAT12 raw entry from a byte table.
    pub(crate) fn raw12(d: &[u8], c: u32) -> u32 {
        let o = (c + c / 2) as usize;
        let w = (d[o] as u32) | ((d[o + 1] as u32) << 8);
        if c & 1 == 0 { w & 0xFFF } else { w >> 4 }
    }
    pub(crate) fn raw16(d: &[u8], c: u32) -> u32 {
        let o = (c * 2) as usize;
        (d[o] as u32) | ((d[o + 1] as u32) << 8)
    }
    pub(crate) fn raw32_full(d: &[u8], c: u32) -> u32 {
        let o = (c * 4) as usize;
        (d[o] as u32) | ((d[o + 1] as u32) << 8) | ((d[o + 2] as u32) << 16) | ((d[o + 3] as u32) << 24)
    }
    /// Entry value as the specification reads it (FAT32: low 28 bits). width: 0/1/2.
    pub(crate) fn raw(width: u8, d: &[u8], c: u32) -> u32 {
        match width { 0 => raw12(d, c), 1 => raw16(d, c), _ => raw32_full(d, c) & 0x0FFF_FFFF }
    }
    pub(crate) fn eoc_min(width: u8) -> u32 { match width { 0 => 0xFF8, 1 => 0xFFF8, _ => 0x0FFF_FFF8 } }
    pub(crate) fn bad_mark(width: u8) -> u32 { match width { 0 => 0xFF7, 1 => 0xFFF7, _ => 0x0FFF_FFF7 } }
    pub(crate) fn eoc_written(width: u8) -> u32 { match width { 0 => 0xFFF, 1 => 0xFFFF, _ => 0x0FFF_FFFF } }

    /// Classification of an entry value: 0 free, 1 data (next = v), 2 bad, 3 end of chain.
    pub(crate) fn classify(width: u8, v: u32) -> u8 {
        if v == 0 { 0 } else if v == bad_mark(width) { 2 } else if v >= eoc_min(width) { 3 } else { 1 }
    }

    /// Size of the FAT window used by the table harnesses and the largest entry count examined in it.
    pub(crate) const NB: usize = 32;
    pub(crate) const MAXN: u32 = 10;

    /// Structural invariant of a FAT with `n` entries (clusters 2..n): every link points to an in-range cluster,
    /// no cluster is the target of two links (no cross-link) and `rank` strictly increases along links (no cycle).
    /// `rank` is a witness chosen by the solver (existential in an assumption, checked in an assertion).
    pub(crate) fn wf(width: u8, d: &[u8; NB], n: u32, rank: &[u8; MAXN as usize]) -> bool {
        let mut i = 2;
        while i < n {
            let v = raw(width, d, i);
            if classify(width, v) == 1 {
                if v < 2 || v >= n { return false; }
                if rank[v as usize] <= rank[i as usize] { return false; }
                // a link never points at a free or bad cluster
                let t = classify(width, raw(width, d, v));
                if t == 0 || t == 2 { return false; }
                let mut j = i + 1;
                while j < n {
                    if raw(width, d, j) == v { return false; }
                    j += 1;
                }
            }
            i += 1;
        }
        true
    }

    /// Store entry value `v` for cluster `c` (independent writer used to BUILD test tables; FAT32 keeps bits 28-31).
    pub(crate) fn set_raw(width: u8, d: &mut [u8; NB], c: u32, v: u32) {
        match width {
            0 => {
                let o = (c + c / 2) as usize;
                if c & 1 == 0 { d[o] = v as u8; d[o + 1] = (d[o + 1] & 0xF0) | ((v >> 8) as u8 & 0x0F); }
                else { d[o] = (d[o] & 0x0F) | ((v as u8 & 0x0F) << 4); d[o + 1] = (v >> 4) as u8; }
            }
            1 => { let o = (c * 2) as usize; d[o] = v as u8; d[o + 1] = (v >> 8) as u8; }
            _ => { let o = (c * 4) as usize; d[o] = v as u8; d[o + 1] = (v >> 8) as u8; d[o + 2] = (v >> 16) as u8; d[o + 3] = (d[o + 3] & 0xF0) | ((v >> 24) as u8 & 0x0F); }
        }
    }

    /// Number of free (zero) entries among clusters 2..n.
    pub(crate) fn count_free(width: u8, d: &[u8; NB], n: u32) -> u32 {
        let mut c = 0;
        let mut i = 2;
        while i < n { if raw(width, d, i) == 0 { c += 1; } i += 1; }
        c
    }

    /// true iff some entry in 2..n links to `c`.
    pub(crate) fn has_pred(width: u8, d: &[u8; NB], n: u32, c: u32) -> bool {
        let mut i = 2;
        while i < n { if raw(width, d, i) == c && classify(width, c) == 1 { return true; } i += 1; }
        false
    }

    /// Long-name checksum of an 11-byte short name (specification's ChkSum routine).
    pub(crate) fn lfn_checksum(sfn: &[u8; 11]) -> u8 {
        let mut s: u8 = 0;
        let mut i = 0;
        while i < 11 {
            s = (if s & 1 != 0 { 0x80u8 } else { 0 }).wrapping_add(s >> 1).wrapping_add(sfn[i]);
            i += 1;
        }
        s
    }

    /// Byte offsets of the 13 UTF-16 units inside a 32-byte long-name slot.
    pub(crate) const LFN_UNIT_OFFSETS: [usize; 13] = [1, 3, 5, 7, 9, 14, 16, 18, 20, 22, 24, 28, 30];

    pub(crate) fn lfn_unit(slot: &[u8; 32], i: usize) -> u16 {
        let o = LFN_UNIT_OFFSETS[i];
        (slot[o] as u16) | ((slot[o + 1] as u16) << 8)
    }
}

#[allow(dead_code)]
pub(crate) mod dev {
    use crate::io::{IoBase, Read, Seek, SeekFrom, Write};

    fn seek_total(cur: u64, end: u64, pos: SeekFrom) -> u64 {
        match pos {
            SeekFrom::Start(x) => x,
            SeekFrom::Current(d) => (cur as i64).wrapping_add(d) as u64,
            SeekFrom::End(d) => (end as i64).wrapping_add(d) as u64,
        }
    }

    /// Array-backed device that never short-reads/writes; an access outside [0, N) sets `oob`
    /// (and transfers nothing). Counts calls.
    pub(crate) struct TotDev<const N: usize> {
        pub data: [u8; N],
        pub pos: u64,
        pub oob: bool,
        pub writes: u32,
        pub reads: u32,
        pub flushes: u32,
    }
    impl<const N: usize> TotDev<N> {
        pub(crate) fn new(data: [u8; N]) -> Self { Self { data, pos: 0, oob: false, writes: 0, reads: 0, flushes: 0 } }
    }
    impl<const N: usize> IoBase for TotDev<N> { type Error = (); }
    impl<const N: usize> Read for TotDev<N> {
        fn read(&mut self, buf: &mut [u8]) -> Result<usize, ()> {
            let n = buf.len();
            self.reads += 1;
            if n > N || self.pos > (N - n) as u64 { self.oob = true; self.pos = self.pos.wrapping_add(n as u64); return Ok(n); }
            let pos = self.pos as usize;
            let mut i = 0;
            while i < n { buf[i] = self.data[pos + i]; i += 1; }
            self.pos += n as u64;
            Ok(n)
        }
    }
    impl<const N: usize> Write for TotDev<N> {
        fn write(&mut self, buf: &[u8]) -> Result<usize, ()> {
            let n = buf.len();
            self.writes += 1;
            if n > N || self.pos > (N - n) as u64 { self.oob = true; self.pos = self.pos.wrapping_add(n as u64); return Ok(n); }
            let pos = self.pos as usize;
            let mut i = 0;
            while i < n { self.data[pos + i] = buf[i]; i += 1; }
            self.pos += n as u64;
            Ok(n)
        }
        fn flush(&mut self) -> Result<(), ()> { self.flushes += 1; Ok(()) }
    }
    impl<const N: usize> Seek for TotDev<N> {
        fn seek(&mut self, pos: SeekFrom) -> Result<u64, ()> {
            self.pos = seek_total(self.pos, N as u64, pos);
            Ok(self.pos)
        }
    }

    /// Error token carried by injected faults (so that "the storage's error" can be recognised).
    #[derive(Debug, Clone, Copy, PartialEq, Eq)]
    pub(crate) struct Tok(pub u8);
    impl crate::error::IoError for Tok {
        fn is_interrupted(&self) -> bool { false }
        fn new_unexpected_eof_error() -> Self { Tok(0xEE) }
        fn new_write_zero_error() -> Self { Tok(0xDD) }
    }
    pub(crate) const FAULT: Tok = Tok(0x77);

    /// Total array device with ONE injected fault: the `fault_at`-th device call (read, write, seek or flush,
    /// counted from 0) fails with `FAULT`. A call budget guards termination.
    pub(crate) struct FaultDev<const N: usize> {
        pub data: [u8; N],
        pub pos: u64,
        pub oob: bool,
        pub calls: u32,
        pub fault_at: u32,
        pub fired: bool,
        pub budget: u32,
    }
    impl<const N: usize> FaultDev<N> {
        pub(crate) fn new(data: [u8; N], fault_at: u32, budget: u32) -> Self {
            Self { data, pos: 0, oob: false, calls: 0, fault_at, fired: false, budget }
        }
        fn tick(&mut self) -> Result<(), Tok> {
            let c = self.calls;
            assert!(c < self.budget, "device-call budget exceeded: the operation does not terminate");
            self.calls += 1;
            if c == self.fault_at { self.fired = true; Err(FAULT) } else { Ok(()) }
        }
    }
    impl<const N: usize> IoBase for FaultDev<N> { type Error = Tok; }
    impl<const N: usize> Read for FaultDev<N> {
        fn read(&mut self, buf: &mut [u8]) -> Result<usize, Tok> {
            self.tick()?;
            let n = buf.len();
            if n > N || self.pos > (N - n) as u64 { self.oob = true; self.pos = self.pos.wrapping_add(n as u64); return Ok(n); }
            let pos = self.pos as usize;
            let mut i = 0;
            while i < n { buf[i] = self.data[pos + i]; i += 1; }
            self.pos += n as u64;
            Ok(n)
        }
    }
    impl<const N: usize> Write for FaultDev<N> {
        fn write(&mut self, buf: &[u8]) -> Result<usize, Tok> {
            self.tick()?;
            let n = buf.len();
            if n > N || self.pos > (N - n) as u64 { self.oob = true; self.pos = self.pos.wrapping_add(n as u64); return Ok(n); }
            let pos = self.pos as usize;
            let mut i = 0;
            while i < n { self.data[pos + i] = buf[i]; i += 1; }
            self.pos += n as u64;
            Ok(n)
        }
        fn flush(&mut self) -> Result<(), Tok> { self.tick() }
    }
    impl<const N: usize> Seek for FaultDev<N> {
        fn seek(&mut self, pos: SeekFrom) -> Result<u64, Tok> {
            self.tick()?;
            self.pos = seek_total(self.pos, N as u64, pos);
            Ok(self.pos)
        }
    }

    /// Wrapper that injects ONE fault into any total device: the `fault_at`-th call (read, write, seek or flush,
    /// counted from 0) fails with `FAULT`; a call budget guards termination. (Kept out of WinDev itself: an always-false
    /// fault test inside the device made CBMC lose constant propagation of the device position, 40 s -> 940 s.)
    pub(crate) struct Faulty<D> {
        pub inner: D,
        pub calls: u32,
        pub fault_at: u32,
        pub fired: bool,
        pub budget: u32,
    }
    impl<D> Faulty<D> {
        pub(crate) fn new(inner: D, fault_at: u32, budget: u32) -> Self { Self { inner, calls: 0, fault_at, fired: false, budget } }
        fn tick(&mut self) -> Result<(), Tok> {
            let c = self.calls;
            assert!(c < self.budget, "device-call budget exceeded: the operation does not terminate");
            self.calls += 1;
            if c == self.fault_at { self.fired = true; Err(FAULT) } else { Ok(()) }
        }
    }
    impl<D> IoBase for Faulty<D> { type Error = Tok; }
    impl<D: Read<Error = Tok>> Read for Faulty<D> {
        fn read(&mut self, buf: &mut [u8]) -> Result<usize, Tok> { self.tick()?; self.inner.read(buf) }
    }
    impl<D: Write<Error = Tok>> Write for Faulty<D> {
        fn write(&mut self, buf: &[u8]) -> Result<usize, Tok> { self.tick()?; self.inner.write(buf) }
        fn flush(&mut self) -> Result<(), Tok> { self.tick()?; self.inner.flush() }
    }
    impl<D: Seek<Error = Tok>> Seek for Faulty<D> {
        fn seek(&mut self, pos: SeekFrom) -> Result<u64, Tok> { self.tick()?; self.inner.seek(pos) }
    }

    pub(crate) const LOGN: usize = 8;

    /// Device without contents: it records WHERE things are written (offset, length, first byte) and when
    /// flush is called; reads return bytes chosen by the harness (`fill`), one watched byte is tracked exactly.
    pub(crate) struct LogDev {
        pub pos: u64,
        pub end: u64,
        pub nw: usize,
        pub w_off: [u64; LOGN],
        pub w_len: [u64; LOGN],
        pub w_first: [u8; LOGN],
        pub overflow: bool,
        pub nreads: u32,
        pub r_off: u64,
        pub r_len: u64,
        pub flushes: u32,
        pub writes_at_last_flush: usize,
        pub fill: u8,
        pub watch_addr: u64,
        pub watch_val: u8,
        pub watch_hit: bool,
        pub max_end: u64,
        pub total_writes: u32,
    }
    impl LogDev {
        pub(crate) fn new(end: u64) -> Self {
            Self { pos: 0, end, nw: 0, w_off: [0; LOGN], w_len: [0; LOGN], w_first: [0; LOGN], overflow: false, nreads: 0, r_off: 0, r_len: 0,
                   flushes: 0, writes_at_last_flush: 0, fill: 0, watch_addr: u64::MAX, watch_val: 0, watch_hit: false, max_end: 0, total_writes: 0 }
        }
    }
    impl IoBase for LogDev { type Error = (); }
    impl Read for LogDev {
        fn read(&mut self, buf: &mut [u8]) -> Result<usize, ()> {
            self.nreads += 1;
            let n = buf.len() as u64;
            let a = self.pos;
            self.r_off = a;
            self.r_len = n;
            if n > 0 && self.watch_addr >= a && self.watch_addr - a < n {
                buf[(self.watch_addr - a) as usize] = self.watch_val;
            }
            self.pos = a.wrapping_add(n);
            Ok(buf.len())
        }
    }
    impl Write for LogDev {
        fn write(&mut self, buf: &[u8]) -> Result<usize, ()> {
            let n = buf.len() as u64;
            let a = self.pos;
            self.total_writes += 1;
            if a.wrapping_add(n) > self.max_end { self.max_end = a.wrapping_add(n); }
            if self.nw < LOGN {
                self.w_off[self.nw] = a;
                self.w_len[self.nw] = n;
                self.w_first[self.nw] = if buf.is_empty() { 0 } else { buf[0] };
                self.nw += 1;
            } else {
                self.overflow = true;
            }
            if n > 0 && self.watch_addr >= a && self.watch_addr - a < n {
                self.watch_val = buf[(self.watch_addr - a) as usize];
                self.watch_hit = true;
            }
            self.pos = a.wrapping_add(n);
            Ok(buf.len())
        }
        fn flush(&mut self) -> Result<(), ()> { self.flushes += 1; self.writes_at_last_flush = self.nw; Ok(()) }
    }
    impl Seek for LogDev {
        fn seek(&mut self, pos: SeekFrom) -> Result<u64, ()> {
            self.pos = seek_total(self.pos, self.end, pos);
            Ok(self.pos)
        }
    }

    pub(crate) const FATW: usize = 32;   // bytes of each FAT copy that are modelled
    pub(crate) const DIRW: usize = 128;  // bytes of directory region that are modelled (4 slots)

    /// Windowed device. The regions the library INTERPRETS are real arrays: up to two FAT copies (first FATW bytes
    /// of each) and one directory window (DIRW bytes). Everything else (file payload, boot sector, FS-info sector)
    /// is not stored: writes there are logged (offset, length, first byte) and one arbitrary watched address is
    /// tracked exactly; reads there return the watched byte at its place and unconstrained bytes elsewhere.
    /// The device is total (always transfers buf.len()); an access beyond `limit`, straddling a window edge, or
    /// inside a FAT copy but outside the modelled window sets `oob`.
    pub(crate) struct WinDev {
        pub pos: u64,
        pub limit: u64,
        pub oob: bool,
        pub fat_base: u64,
        pub fat_stride: u64,
        pub fat_copies: u8,
        pub fat0: [u8; FATW],
        pub fat1: [u8; FATW],
        pub fat_writes: u32,
        pub dir_base: u64,
        pub dir: [u8; DIRW],
        pub dir_writes: u32,
        pub nw: usize,
        pub w_off: [u64; LOGN],
        pub w_len: [u64; LOGN],
        pub w_first: [u8; LOGN],
        pub overflow: bool,
        pub flushes: u32,
        pub writes_at_last_flush: u32,
        pub total_writes: u32,
        pub watch_addr: u64,
        pub watch_val: u8,
    }
    impl WinDev {
        pub(crate) fn new(limit: u64, fat_base: u64, fat_stride: u64, fat_copies: u8, dir_base: u64) -> Self {
            Self { pos: 0, limit, oob: false, fat_base, fat_stride, fat_copies, fat0: [0; FATW], fat1: [0; FATW], fat_writes: 0,
                   dir_base, dir: [0; DIRW], dir_writes: 0, nw: 0, w_off: [0; LOGN], w_len: [0; LOGN], w_first: [0; LOGN],
                   overflow: false, flushes: 0, writes_at_last_flush: 0, total_writes: 0, watch_addr: u64::MAX, watch_val: 0 }
        }
        /// Some(copy index, offset) if [a, a+n) lies inside the modelled window of a FAT copy.
        fn fat_hit(&mut self, a: u64, n: u64) -> Option<(usize, usize)> {
            let fat_end = self.fat_base + self.fat_stride * self.fat_copies as u64;
            if a + n <= self.fat_base || a >= fat_end { return None; }
            // inside the FAT area
            let rel = a - self.fat_base;
            let copy = if self.fat_copies == 2 && rel >= self.fat_stride { 1 } else { 0 };
            let o = rel - copy as u64 * self.fat_stride;
            if a < self.fat_base || o + n > FATW as u64 || n > 4 { self.oob = true; return None; }
            Some((copy, o as usize))
        }
        fn dir_hit(&mut self, a: u64, n: u64) -> Option<usize> {
            if a + n <= self.dir_base || a >= self.dir_base + DIRW as u64 { return None; }
            if a < self.dir_base || a + n > self.dir_base + DIRW as u64 || n > 11 { self.oob = true; return None; }
            Some((a - self.dir_base) as usize)
        }
    }
    impl IoBase for WinDev { type Error = Tok; }
    impl Read for WinDev {
        fn read(&mut self, buf: &mut [u8]) -> Result<usize, Tok> {
            let n = buf.len() as u64;
            let a = self.pos;
            if a > self.limit || n > self.limit - a { self.oob = true; }
            if let Some((c, o)) = self.fat_hit(a, n) {
                let f = if c == 0 { &self.fat0 } else { &self.fat1 };
                if n >= 1 { buf[0] = f[o]; }
                if n >= 2 { buf[1] = f[o + 1]; }
                if n >= 3 { buf[2] = f[o + 2]; }
                if n >= 4 { buf[3] = f[o + 3]; }
            } else if let Some(o) = self.dir_hit(a, n) {
                // straight-line (no loop to unwind when the length is not a constant); slots are transferred in pieces <= 11 bytes
                if n >= 1 { buf[0] = self.dir[o + 0]; }
                if n >= 2 { buf[1] = self.dir[o + 1]; }
                if n >= 3 { buf[2] = self.dir[o + 2]; }
                if n >= 4 { buf[3] = self.dir[o + 3]; }
                if n >= 5 { buf[4] = self.dir[o + 4]; }
                if n >= 6 { buf[5] = self.dir[o + 5]; }
                if n >= 7 { buf[6] = self.dir[o + 6]; }
                if n >= 8 { buf[7] = self.dir[o + 7]; }
                if n >= 9 { buf[8] = self.dir[o + 8]; }
                if n >= 10 { buf[9] = self.dir[o + 9]; }
                if n >= 11 { buf[10] = self.dir[o + 10]; }
            } else if n > 0 && self.watch_addr >= a && self.watch_addr - a < n {
                buf[(self.watch_addr - a) as usize] = self.watch_val;
            }
            self.pos = a.wrapping_add(n);
            Ok(buf.len())
        }
    }
    impl Write for WinDev {
        fn write(&mut self, buf: &[u8]) -> Result<usize, Tok> {
            let n = buf.len() as u64;
            let a = self.pos;
            self.total_writes += 1;
            if a > self.limit || n > self.limit - a { self.oob = true; }
            if let Some((c, o)) = self.fat_hit(a, n) {
                self.fat_writes += 1;
                let f = if c == 0 { &mut self.fat0 } else { &mut self.fat1 };
                if n >= 1 { f[o] = buf[0]; }
                if n >= 2 { f[o + 1] = buf[1]; }
                if n >= 3 { f[o + 2] = buf[2]; }
                if n >= 4 { f[o + 3] = buf[3]; }
            } else if n > 11 && a <= self.dir_base && a.wrapping_add(n) >= self.dir_base + DIRW as u64 && self.dir_base < self.limit {
                // a bulk write covering the WHOLE window (a cluster being zeroed): modelled as a uniform fill with its first
                // byte (first and last byte are compared; the library only ever bulk-writes zeros); also logged as a payload write
                if buf[0] != buf[buf.len() - 1] { self.oob = true; }
                self.dir = [buf[0]; DIRW];
                if self.nw < LOGN {
                    self.w_off[self.nw] = a;
                    self.w_len[self.nw] = n;
                    self.w_first[self.nw] = buf[0];
                    self.nw += 1;
                } else {
                    self.overflow = true;
                }
            } else if let Some(o) = self.dir_hit(a, n) {
                self.dir_writes += 1;
                if n >= 1 { self.dir[o + 0] = buf[0]; }
                if n >= 2 { self.dir[o + 1] = buf[1]; }
                if n >= 3 { self.dir[o + 2] = buf[2]; }
                if n >= 4 { self.dir[o + 3] = buf[3]; }
                if n >= 5 { self.dir[o + 4] = buf[4]; }
                if n >= 6 { self.dir[o + 5] = buf[5]; }
                if n >= 7 { self.dir[o + 6] = buf[6]; }
                if n >= 8 { self.dir[o + 7] = buf[7]; }
                if n >= 9 { self.dir[o + 8] = buf[8]; }
                if n >= 10 { self.dir[o + 9] = buf[9]; }
                if n >= 11 { self.dir[o + 10] = buf[10]; }
            } else {
                if self.nw < LOGN {
                    self.w_off[self.nw] = a;
                    self.w_len[self.nw] = n;
                    self.w_first[self.nw] = if buf.is_empty() { 0 } else { buf[0] };
                    self.nw += 1;
                } else {
                    self.overflow = true;
                }
                if n > 0 && self.watch_addr >= a && self.watch_addr - a < n {
                    self.watch_val = buf[(self.watch_addr - a) as usize];
                }
            }
            self.pos = a.wrapping_add(n);
            Ok(buf.len())
        }
        fn flush(&mut self) -> Result<(), Tok> { self.flushes += 1; self.writes_at_last_flush = self.total_writes; Ok(()) }
    }
    impl Seek for WinDev {
        fn seek(&mut self, pos: SeekFrom) -> Result<u64, Tok> {
            self.pos = seek_total(self.pos, self.limit, pos);
            Ok(self.pos)
        }
    }
}

#[allow(dead_code)]
pub(crate) mod stubs {
    /// Replacement for core::slice::memchr::memchr (std's version does pointer-alignment arithmetic that CBMC
    /// treats as nondeterministic). Same contract: index of the first occurrence.
    pub fn memchr(x: u8, text: &[u8]) -> Option<usize> {
        let mut i = 0;
        while i < text.len() { if text[i] == x { return Some(i); } i += 1; }
        None
    }
    /// Replacement for core::slice::memchr::memrchr: index of the last occurrence.
    pub fn memrchr(x: u8, text: &[u8]) -> Option<usize> {
        let mut i = text.len();
        while i > 0 { i -= 1; if text[i] == x { return Some(i); } }
        None
    }
}
