// harnesses for file (included into /repo/src/file.rs under cfg(kani))
