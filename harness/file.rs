// Harnesses for src/file.rs (C02, C04, C11, C12, C13, C14, C18). Included as `crate::file::verif` under cfg(kani).
//
// One STEP of one file operation from an arbitrary state that satisfies the File representation invariant
//     Inv: offset <= size, chain length = ceil(size / cluster),
//          current_cluster = None            if offset == 0
//                          = chain[(offset-1) / cluster] otherwise ("previous cluster" at a boundary)
// and the step is shown to (a) behave like a byte array with a cursor and (b) re-establish Inv, so sequences of
// operations of any length are covered by induction. The cluster INDEX of the cursor is concrete per harness
// (case split); the position inside the cluster, the file size inside its last cluster, the buffer length and the
// buffer contents are symbolic. The FAT is a real window of a windowed device; file payload is not stored: one
// arbitrary watched device address tracks it exactly (sound because the library never branches on payload bytes).
use super::*;
use crate::dir_entry::verif::{editor, editor_state, entry_raw_times, entry_size_cluster, file_entry};
use crate::fs::verif::{fs_pending, mk_fs_plain, Fs, Geo};
use crate::fs::{FatType, ReadWriteSeek};
use crate::time::{Date, DateTime, Time};
use crate::verif_support::dev::{WinDev, FATW};
use crate::verif_support::spec;

const CS: u32 = 512;
const ENTRY_POS: u64 = 0x1_0000_0000 + 64; // where the file's directory entry lives (outside every window)

/// Clock whose value is chosen by the solver.
#[derive(Debug, Clone, Copy)]
pub(crate) struct SymClock { pub now: DateTime }
impl TimeProvider for SymClock {
    fn get_current_date(&self) -> Date { self.now.date }
    fn get_current_date_time(&self) -> DateTime { self.now }
}
pub(crate) fn any_clock() -> SymClock { SymClock { now: crate::dir_entry::verif::any_valid_datetime() } }

fn w(ft: FatType) -> u8 { match ft { FatType::Fat12 => 0, FatType::Fat16 => 1, FatType::Fat32 => 2 } }

/// The file's chain: clusters 2 -> 3 -> 5 (deliberately not contiguous); cluster 4 belongs to somebody else;
/// 6 and 7 are free. `m` = number of clusters the file owns (0..=3).
const CHAIN: [u32; 3] = [2, 3, 5];
fn chain_table(ft: FatType, m: usize) -> [u8; FATW] {
    let mut t = [0u8; FATW];
    let wd = w(ft);
    spec::set_raw(wd, &mut t, 0, 0x0FFF_FFF8);
    spec::set_raw(wd, &mut t, 1, 0x0FFF_FFFF);
    let mut i = 0;
    while i < m {
        let v = if i + 1 < m { CHAIN[i + 1] } else { spec::eoc_written(wd) };
        spec::set_raw(wd, &mut t, CHAIN[i], v);
        i += 1;
    }
    spec::set_raw(wd, &mut t, 4, spec::eoc_written(wd));
    t
}

fn geo(ft: FatType) -> Geo { Geo::small(ft, 6) }

fn mk_dev(ft: FatType, m: usize) -> WinDev {
    let g = geo(ft);
    let mut dev = crate::fs::verif::win_for(&g);
    dev.limit = u64::MAX; // the entry position is outside the tiny volume; volume bounds are checked via cluster offsets
    dev.dir_base = 1u64 << 62; // no directory window here (on FAT32 the root directory would alias cluster 2)
    dev.fat0 = chain_table(ft, m);
    dev.fat1 = dev.fat0;
    dev
}

/// Cursor cluster for "cluster index k" (concrete, so that FAT lookups made by the code under test stay concrete).
fn cur_of(k: usize) -> Option<u32> {
    if k == usize::MAX { None } else { Some(CHAIN[k]) }
}

/// All 32 bytes equal, checked at one arbitrary index (no comparison loop to unwind).
fn assert_same(a: &[u8; FATW], b: &[u8; FATW]) {
    let i: usize = kani::any();
    kani::assume(i < FATW);
    assert!(a[i] == b[i]);
}

/// Symbolic size consistent with a chain of m clusters; symbolic offset whose "current cluster index" is k
/// (k == usize::MAX means offset 0).
fn any_size(m: usize) -> u32 {
    let size: u32 = kani::any();
    if m == 0 { kani::assume(size == 0); } else { kani::assume(size > (m as u32 - 1) * CS && size <= m as u32 * CS); }
    size
}
fn any_offset(k: usize, size: u32) -> u32 {
    if k == usize::MAX { return 0; }
    let off: u32 = kani::any();
    kani::assume(off > k as u32 * CS && off <= (k as u32 + 1) * CS && off <= size);
    off
}

fn mk_file<'a, D: ReadWriteSeek, TP>(fs: &'a Fs<D, TP>, m: usize, k: usize, size: u32, offset: u32) -> File<'a, D, TP, crate::fs::LossyOemCpConverter> {
    let first = if m == 0 { None } else { Some(CHAIN[0]) };
    File {
        first_cluster: first,
        current_cluster: cur_of(k),
        offset,
        entry: Some(editor(file_entry(first.unwrap_or(0), size), ENTRY_POS)),
        fs,
    }
}

fn inv_holds<TP>(f: &File<WinDev, TP, crate::fs::LossyOemCpConverter>, chain: &[u32], size: u32) -> bool {
    let e = match f.entry { Some(ref e) => e, None => return false };
    let (data, pos, _) = editor_state(e);
    let (esize, lo, hi) = entry_size_cluster(data);
    if esize != size || pos != ENTRY_POS { return false; }
    let first = if chain.is_empty() { 0 } else { chain[0] };
    if (lo as u32 | ((hi as u32) << 16)) != first { return false; }
    if f.first_cluster != if chain.is_empty() { None } else { Some(chain[0]) } { return false; }
    if f.offset > size { return false; }
    let cur = if f.offset == 0 { None } else { Some(chain[((f.offset - 1) / CS) as usize]) };
    f.current_cluster == cur
}

// ------------------------------------------------------------------------------------------- read (C02, C13, C18)

fn read_check(ft: FatType, m: usize, k: usize, update_accessed: bool) {
    let g = geo(ft);
    let mut dev = mk_dev(ft, m);
    dev.watch_addr = kani::any();
    dev.watch_val = kani::any();
    let (wa, wv) = (dev.watch_addr, dev.watch_val);
    let clock = any_clock();
    let fs = core::mem::ManuallyDrop::new(mk_fs_plain(dev, &g, clock, update_accessed));
    let size = any_size(m);
    let off = any_offset(k, size);
    let mut f = core::mem::ManuallyDrop::new(mk_file(&*fs, m, k, size, off));
    let len: usize = kani::any();
    kani::assume(len <= 600);
    let mut buf = [0u8; 600];
    let r = f.read(&mut buf[..len]);
    let n = match r { Ok(n) => n, Err(_) => { assert!(false); return; } };
    // array-with-cursor model: never more than remains in the file, clipped at the cluster boundary
    let in_cluster = CS - off % CS;
    let expect = core::cmp::min(core::cmp::min(len as u32, in_cluster), size - off);
    assert!(n as u32 == expect);
    assert!(f.offset == off + n as u32);
    assert!(inv_holds(&f, &CHAIN[..m], size));
    // the bytes come from the right device address: file position p lives at cluster chain[p / CS]
    if n > 0 {
        let dev_off = g.cluster_off(CHAIN[(off / CS) as usize]) + (off % CS) as u64;
        if wa >= dev_off && wa - dev_off < n as u64 { assert!(buf[(wa - dev_off) as usize] == wv); }
    }
    kani::cover!(m == 0 || (n > 0 && wa >= g.cluster_off(CHAIN[(off / CS) as usize]) + (off % CS) as u64));
    let d = fs.disk.borrow();
    assert!(!d.oob);
    // C13: a read never writes to the storage and leaves nothing pending unless access-date updating is on
    assert!(d.total_writes == 0 && d.flushes == 0);
    let (info_dirty, flags, _, _) = fs_pending(&*fs);
    assert!(!info_dirty && !flags.dirty());
    let (data, _, dirty) = editor_state(f.entry.as_ref().unwrap());
    if !update_accessed || n == 0 {
        assert!(!dirty);
    } else {
        // C18: access date stamped from the time provider, only when the option is on
        assert!(entry_raw_times(data).5 == clock.now.date.encode());
    }
    let last = m > 0 && (k == m - 1 || (m == 1 && k == usize::MAX));
    let mid = m == 3 && k < 2;
    kani::cover!(m == 0 || (n as u32 == in_cluster && in_cluster < len as u32));          // clipped at the cluster boundary
    kani::cover!(!last || (n as u32 == size - off && size - off < in_cluster && n > 0));   // clipped at end of file
    kani::cover!(!last || (n == 0 && len > 0));                                             // at end of file
    kani::cover!(!mid || (off % CS == 0 && n > 0));                                         // started exactly on a boundary
}
macro_rules! read_case {
    ($name:ident, $ft:expr, $m:expr, $k:expr, $acc:expr) => {
        #[kani::proof]
        #[kani::unwind(8)]
        fn $name() { read_check($ft, $m, $k, $acc); }
    };
}
/// C02/C13/C18: File::read from every cursor position of the first / middle / last cluster (and offset 0).
read_case!(read16_start, FatType::Fat16, 3, usize::MAX, false);
read_case!(read16_c0, FatType::Fat16, 3, 0, false);
read_case!(read16_c1, FatType::Fat16, 3, 1, false);
read_case!(read16_c2_tail, FatType::Fat16, 3, 2, false);
read_case!(read12_c1, FatType::Fat12, 3, 1, false);
read_case!(read32_c1_accessed, FatType::Fat32, 3, 1, true);
read_case!(read16_single_cluster, FatType::Fat16, 1, 0, false);
read_case!(read16_empty_file, FatType::Fat16, 0, usize::MAX, false);

// ------------------------------------------------------------------------------------------- write (C02, C11, C12, C18)

fn write_check(ft: FatType, m: usize, k: usize, mounted_dirty: bool) {
    let mut g = geo(ft);
    if mounted_dirty { g.status = 1; }
    let mut dev = mk_dev(ft, m);
    dev.watch_addr = kani::any();
    dev.watch_val = kani::any();
    let (wa, wv) = (dev.watch_addr, dev.watch_val);
    let old_fat = dev.fat0;
    let clock = any_clock();
    let fs = core::mem::ManuallyDrop::new(mk_fs_plain(dev, &g, clock, false));
    let size = any_size(m);
    let off = any_offset(k, size);
    let mut f = core::mem::ManuallyDrop::new(mk_file(&*fs, m, k, size, off));
    let before_times = entry_raw_times(editor_state(f.entry.as_ref().unwrap()).0);
    let len: usize = kani::any();
    kani::assume(len <= 600);
    let buf: [u8; 600] = kani::any();
    let r = f.write(&buf[..len]);
    let n = match r { Ok(n) => n, Err(_) => { assert!(false); return; } };
    let in_cluster = CS - off % CS;
    let expect = core::cmp::min(len as u32, in_cluster);
    assert!(n as u32 == expect);
    let d = fs.disk.borrow();
    assert!(!d.oob && !d.overflow);
    if n == 0 {
        assert!(d.total_writes == 0 && f.offset == off);
        return;
    }
    // which cluster receives the data: an existing one, or (at end of chain) the first free cluster, linked in
    let idx = (off / CS) as usize;
    let allocates = idx >= m;
    let fresh = [2u32, 3, 5, 6][m];                 // first free cluster of the table for a file of m clusters
    let target = if allocates { fresh } else { CHAIN[idx] };
    let new_m = if allocates { m + 1 } else { m };
    let chain2 = [CHAIN[0], CHAIN[1], CHAIN[2], 6];  // = chain with the fresh cluster appended, for every m
    let new_size = core::cmp::max(size, off + n as u32);
    assert!(f.offset == off + n as u32);
    assert!(inv_holds(&f, &chain2[..new_m], new_size));
    // FAT: unchanged unless allocating; then the new cluster terminates the chain and the old tail links to it
    let wd = w(ft);
    if allocates {
        assert!(spec::raw(wd, &d.fat0, fresh) == spec::eoc_written(wd));
        if m > 0 { assert!(spec::raw(wd, &d.fat0, CHAIN[m - 1]) == fresh); }
        let c: u32 = kani::any();
        kani::assume(c < 8 && c != fresh && (m == 0 || c != CHAIN[m - 1]));
        assert!(spec::raw(wd, &d.fat0, c) == spec::raw(wd, &old_fat, c));
    } else {
        assert_same(&d.fat0, &old_fat);
    }
    assert_same(&d.fat0, &d.fat1);
    // C11/C12: device writes outside the FAT: [status byte first, if the volume was clean] then exactly one payload
    // write inside the target cluster at the cursor position
    let dev_off = g.cluster_off(target) + (off % CS) as u64;
    let status_off = if ft == FatType::Fat32 { 0x41 } else { 0x25 };
    if mounted_dirty {
        assert!(d.nw == 1);
    } else {
        assert!(d.nw == 2 && d.w_off[0] == status_off && d.w_len[0] == 1 && d.w_first[0] & 1 == 1);
    }
    let p = d.nw - 1;
    assert!(d.w_off[p] == dev_off && d.w_len[p] == n as u64 && d.w_first[p] == buf[0]);
    assert!(dev_off + n as u64 <= g.cluster_off(target) + CS as u64);
    assert!(fs_pending(&*fs).1.dirty());
    // the byte at every device address in the written range is the byte from the buffer; others keep their value
    if wa >= dev_off && wa - dev_off < n as u64 { assert!(d.watch_val == buf[(wa - dev_off) as usize]); }
    else if wa == status_off && !mounted_dirty { assert!(d.watch_val == d.w_first[0]); }
    else { assert!(d.watch_val == wv); }
    // C18: modification time stamped from the provider, creation untouched; entry marked for write-back
    let (data, _, dirty) = editor_state(f.entry.as_ref().unwrap());
    let t = entry_raw_times(data);
    assert!(t.3 == clock.now.date.encode() && t.4 == clock.now.time.encode().0);
    assert!(t.0 == before_times.0 && t.1 == before_times.1 && t.2 == before_times.2 && t.5 == before_times.5);
    if new_size != size || allocates && m == 0 { assert!(dirty); }
    let tail = m == 0 || k == m - 1;
    kani::cover!(!tail || allocates);
    kani::cover!(!tail || m == 0 || (!allocates && new_size > size));
    kani::cover!(tail || (!allocates && new_size == size && off + (n as u32) < size));   // overwrite in the middle
    kani::cover!(n as u32 == in_cluster && (len as u32) > in_cluster);
    kani::cover!(wa >= dev_off && wa - dev_off < n as u64);
}
macro_rules! write_case {
    ($name:ident, $ft:expr, $m:expr, $k:expr, $dirty:expr) => {
        #[kani::proof]
        #[kani::unwind(8)]
        fn $name() { write_check($ft, $m, $k, $dirty); }
    };
}
/// C02/C11/C12/C18: File::write at every cursor position of a cluster: in the middle of the file, extending inside
/// the last cluster, exactly at the end on a cluster boundary (allocation), into an empty file.
write_case!(write16_start, FatType::Fat16, 3, usize::MAX, false);
write_case!(write16_c0, FatType::Fat16, 3, 0, false);
write_case!(write16_c1_dirty_mount, FatType::Fat16, 3, 1, true);
write_case!(write16_c2_tail_and_alloc, FatType::Fat16, 3, 2, false);
write_case!(write12_c2_tail_and_alloc, FatType::Fat12, 3, 2, false);
write_case!(write32_c2_tail_and_alloc, FatType::Fat32, 3, 2, false);
write_case!(write16_empty_file, FatType::Fat16, 0, usize::MAX, false);
write_case!(write12_single_cluster, FatType::Fat12, 1, 0, false);
write_case!(write32_c0, FatType::Fat32, 2, 0, false);

/// must-fail twin: claims a write never crosses into a newly allocated cluster.
#[kani::proof]
#[kani::unwind(8)]
fn twin_write_never_allocates() {
    let g = geo(FatType::Fat16);
    let fs = core::mem::ManuallyDrop::new(mk_fs_plain(mk_dev(FatType::Fat16, 1), &g, any_clock(), false));
    let mut f = core::mem::ManuallyDrop::new(mk_file(&*fs, 1, 0, 512, 512));
    let _ = f.write(&[1u8; 4]);
    assert!(fs.disk.borrow().fat_writes == 0);
}

// ------------------------------------------------------------------------------------------- seek (C02)

fn seek_check(ft: FatType, m: usize, k: usize) {
    let g = geo(ft);
    let fs = core::mem::ManuallyDrop::new(mk_fs_plain(mk_dev(ft, m), &g, any_clock(), false));
    let size = any_size(m);
    let off = any_offset(k, size);
    let mut f = core::mem::ManuallyDrop::new(mk_file(&*fs, m, k, size, off));
    let kind: u8 = kani::any();
    let x: i64 = kani::any();
    let pos = match kind % 3 { 0 => SeekFrom::Start(x as u64), 1 => SeekFrom::Current(x), _ => SeekFrom::End(x) };
    let target: i128 = match kind % 3 { 0 => (x as u64) as i128, 1 => off as i128 + x as i128, _ => size as i128 + x as i128 };
    let r = f.seek(pos);
    match r {
        Ok(p) => {
            // before the start is rejected; beyond the end clamps to the end
            assert!(target >= 0);
            let clamped = if target > size as i128 { size as i128 } else { target };
            // (targets that do not fit in 32 bits are rejected rather than clamped; see the Err arm)
            assert!(p as i128 == clamped && f.offset as u64 == p);
            assert!(inv_holds(&f, &CHAIN[..m], size));
        }
        Err(Error::InvalidInput) => {
            assert!(target < 0 || target > u32::MAX as i128);
            assert!(f.offset == off && inv_holds(&f, &CHAIN[..m], size));
        }
        Err(_) => assert!(false),
    }
    let d = fs.disk.borrow();
    assert!(!d.oob && d.total_writes == 0);
    kani::cover!(r.is_ok() && target > size as i128);
    kani::cover!(r.is_err() && target < 0);
    kani::cover!(m == 0 || matches!(r, Ok(p) if p > 0 && p % CS as u64 == 0 && p != off as u64));   // lands exactly on a boundary
    kani::cover!(k == usize::MAX || matches!(r, Ok(p) if p > 0 && p < off as u64));                  // backwards
}
macro_rules! seek_case {
    ($name:ident, $ft:expr, $m:expr, $k:expr) => {
        #[kani::proof]
        #[kani::unwind(8)]
        fn $name() { seek_check($ft, $m, $k); }
    };
}
/// C02: File::seek with all three SeekFrom kinds and ANY 64-bit argument, from a cursor in each cluster.
seek_case!(seek16_from_start, FatType::Fat16, 3, usize::MAX);
seek_case!(seek16_from_c0, FatType::Fat16, 3, 0);
seek_case!(seek16_from_c2, FatType::Fat16, 3, 2);
seek_case!(seek12_from_c1, FatType::Fat12, 3, 1);
seek_case!(seek32_from_c1, FatType::Fat32, 3, 1);
seek_case!(seek16_empty_file, FatType::Fat16, 0, usize::MAX);

// ------------------------------------------------------------------------------------------- truncate (C02, C03, C05)

fn truncate_check(ft: FatType, m: usize, k: usize) {
    let g = geo(ft);
    let dev = mk_dev(ft, m);
    let old_fat = dev.fat0;
    let fs = core::mem::ManuallyDrop::new(mk_fs_plain(dev, &g, any_clock(), false));
    let size = any_size(m);
    let off = any_offset(k, size);
    let mut f = core::mem::ManuallyDrop::new(mk_file(&*fs, m, k, size, off));
    assert!(f.truncate().is_ok());
    // everything from the cursor onward is gone: size = offset, chain = the clusters needed for `offset` bytes
    let keep = ((off + CS - 1) / CS) as usize;
    assert!(inv_holds(&f, &CHAIN[..keep], off));
    let d = fs.disk.borrow();
    assert!(!d.oob);
    assert_same(&d.fat0, &d.fat1);
    let wd = w(ft);
    let mut i = 0;
    while i < m {
        let v = spec::raw(wd, &d.fat0, CHAIN[i]);
        if i + 1 < keep { assert!(v == CHAIN[i + 1]); }
        else if i + 1 == keep { assert!(spec::classify(wd, v) == 3); }
        else { assert!(v == 0); }
        i += 1;
    }
    // somebody else's cluster and the free ones are untouched
    assert!(spec::raw(wd, &d.fat0, 4) == spec::raw(wd, &old_fat, 4) && spec::raw(wd, &d.fat0, 6) == 0 && spec::raw(wd, &d.fat0, 7) == 0);
    // no payload write; only the status byte may be written outside the table
    assert!(d.nw <= 1);
    if keep < m { assert!(fs_pending(&*fs).1.dirty()); }
    // C12: a truncation that changes the file's size marks the volume dirty on the device, even when no cluster is freed
    if off != size { assert!(fs_pending(&*fs).1.dirty() && d.nw == 1 && d.w_len[0] == 1 && d.w_first[0] & 1 == 1); }
    let (_, _, dirty) = editor_state(f.entry.as_ref().unwrap());
    if off != size { assert!(dirty); }
    kani::cover!(k == m - 1 || keep < m);
    kani::cover!(k != m - 1 || (keep == m && off < size));
}
macro_rules! truncate_case {
    ($name:ident, $ft:expr, $m:expr, $k:expr) => {
        #[kani::proof]
        #[kani::unwind(8)]
        fn $name() { truncate_check($ft, $m, $k); }
    };
}
/// C02/C03/C05: File::truncate at offset 0, inside / at the end of the first, middle and last cluster.
truncate_case!(truncate16_at_zero, FatType::Fat16, 3, usize::MAX);
truncate_case!(truncate16_c0, FatType::Fat16, 3, 0);
truncate_case!(truncate16_c1, FatType::Fat16, 3, 1);
truncate_case!(truncate16_c2, FatType::Fat16, 3, 2);
truncate_case!(truncate12_c0, FatType::Fat12, 3, 0);
truncate_case!(truncate32_c1, FatType::Fat32, 3, 1);
truncate_case!(truncate32_at_zero, FatType::Fat32, 2, usize::MAX);

// ------------------------------------------------------------------------------------------- flush / drop (C04, C13, C14)

fn flush_check(via_drop: bool) {
    let ft = crate::fs::verif::any_ft();
    let g = geo(ft);
    let mut dev = mk_dev(ft, 3);
    let watch: u64 = kani::any();
    kani::assume(watch >= ENTRY_POS && watch < ENTRY_POS + 32);
    dev.watch_addr = watch;
    dev.watch_val = 0xA5;
    let fs = core::mem::ManuallyDrop::new(mk_fs_plain(dev, &g, any_clock(), false));
    let size = any_size(3);
    let mut f = core::mem::ManuallyDrop::new(mk_file(&*fs, 3, usize::MAX, size, 0));
    // arbitrary pending metadata: new size, new timestamps, or nothing at all
    let pending: bool = kani::any();
    if pending {
        let e = f.entry.as_mut().unwrap();
        let ns: u32 = kani::any();
        kani::assume(ns != size);
        e.set_size(ns);
        e.set_modified(crate::dir_entry::verif::any_valid_datetime());
    }
    let mut img = crate::verif_support::dev::TotDev::<32>::new([0; 32]);
    assert!(editor_state(f.entry.as_ref().unwrap()).0.serialize(&mut img).is_ok());
    if via_drop {
        unsafe { core::mem::ManuallyDrop::drop(&mut f); }
    } else {
        assert!(Write::flush(&mut *f).is_ok());
        assert!(!editor_state(f.entry.as_ref().unwrap()).2);
    }
    let d = fs.disk.borrow();
    assert!(!d.oob && d.fat_writes == 0);
    if pending {
        // C14: the entry (size, first cluster, timestamps) is handed to the storage at its position ...
        assert!(d.total_writes == 12 && d.w_off[0] == ENTRY_POS);
        assert!(d.watch_val == img.data[(watch - ENTRY_POS) as usize]);
    } else {
        // C13: nothing pending => nothing written
        assert!(d.total_writes == 0 && d.watch_val == 0xA5);
    }
    // ... and the storage is flushed AFTER the last write of the call
    assert!(d.flushes == 1 && d.writes_at_last_flush == d.total_writes);
    // a metadata-only write-back does not touch the dirty bit (allowed by C12)
    assert!(!fs_pending(&*fs).1.dirty());
    kani::cover!(pending);
    kani::cover!(!pending);
}
/// C14/C13/C04: File::flush writes the pending directory entry back (exactly its 32 bytes) and then flushes the
/// device; with nothing pending it writes nothing. Same for the destructor.
#[kani::proof]
#[kani::unwind(34)]
fn flush_writes_entry_then_flushes_device() { flush_check(false); }
#[kani::proof]
#[kani::unwind(34)]
fn drop_writes_entry_then_flushes_device() { flush_check(true); }

/// must-fail twin: claims flush never writes.
#[kani::proof]
#[kani::unwind(34)]
fn twin_flush_never_writes() {
    let g = geo(FatType::Fat16);
    let fs = core::mem::ManuallyDrop::new(mk_fs_plain(mk_dev(FatType::Fat16, 1), &g, any_clock(), false));
    let mut f = core::mem::ManuallyDrop::new(mk_file(&*fs, 1, usize::MAX, 100, 0));
    f.entry.as_mut().unwrap().set_size(7);
    let _ = Write::flush(&mut *f);
    assert!(fs.disk.borrow().total_writes == 0);
}

// ------------------------------------------------------------------------------------------- extents (C04, C20)

fn extents_check(ft: FatType, m: usize) {
    let g = geo(ft);
    let fs = core::mem::ManuallyDrop::new(mk_fs_plain(mk_dev(ft, m), &g, any_clock(), false));
    let size = any_size(m);
    let mut f = core::mem::ManuallyDrop::new(mk_file(&*fs, m, usize::MAX, size, 0));
    let mut it = f.extents();
    let mut i = 0;
    let mut total: u64 = 0;
    while i < m {
        match it.next() {
            Some(Ok(e)) => {
                assert!(e.offset == g.cluster_off(CHAIN[i]));
                let exp = if i + 1 < m { CS } else { size - (m as u32 - 1) * CS };
                assert!(e.size == exp);
                total += e.size as u64;
            }
            _ => { assert!(false); }
        }
        i += 1;
    }
    assert!(it.next().is_none());
    assert!(total == size as u64);
    core::mem::forget(it);
    assert!(fs.disk.borrow().total_writes == 0);
}
/// C04: File::extents lists the clusters of the chain in order at their device offsets, sizes summing to the file size.
#[kani::proof]
#[kani::unwind(8)]
fn extents16() { extents_check(FatType::Fat16, 3); }
#[kani::proof]
#[kani::unwind(8)]
fn extents12_two_clusters() { extents_check(FatType::Fat12, 2); }
#[kani::proof]
#[kani::unwind(8)]
fn extents32_empty() { extents_check(FatType::Fat32, 0); }

// ------------------------------------------------------------------------------------------- single faults at File level (C09)

use crate::verif_support::dev::FAULT;

/// op: 0 read across a boundary start 1 write with allocation 2 write in the middle 3 seek forward two clusters
/// 4 truncate 5 flush with pending metadata 6 extents
fn fault_file_check(ft: FatType, op: u8) {
    let fault_at: u32 = kani::any();
    let g = geo(ft);
    let dev = crate::verif_support::dev::Faulty::new(mk_dev(ft, 3), fault_at, 120);
    let fs = core::mem::ManuallyDrop::new(mk_fs_plain(dev, &g, any_clock(), false));
    // concrete state per operation: size 1536 (three full clusters) unless noted
    let (k, off) = match op { 0 => (0usize, 512u32), 1 => (2, 1536), 2 => (1, 700), 3 => (usize::MAX, 0), 4 => (0, 300), 5 => (usize::MAX, 0), _ => (usize::MAX, 0) };
    let mut f = core::mem::ManuallyDrop::new(mk_file(&*fs, 3, k, 1536, off));
    let mut buf = [0u8; 16];
    let wbuf = [7u8; 16];
    let (fault, ok) = match op {
        0 => { let r = f.read(&mut buf); (matches!(r, Err(Error::Io(t)) if t == FAULT), matches!(r, Ok(16))) }
        1 => { let r = f.write(&wbuf); (matches!(r, Err(Error::Io(t)) if t == FAULT), matches!(r, Ok(16))) }
        2 => { let r = f.write(&wbuf); (matches!(r, Err(Error::Io(t)) if t == FAULT), matches!(r, Ok(16))) }
        3 => { let r = f.seek(SeekFrom::Start(1400)); (matches!(r, Err(Error::Io(t)) if t == FAULT), matches!(r, Ok(1400))) }
        4 => { let r = f.truncate(); (matches!(r, Err(Error::Io(t)) if t == FAULT), r.is_ok()) }
        5 => {
            f.entry.as_mut().unwrap().set_size(9);
            let r = Write::flush(&mut *f);
            (matches!(r, Err(Error::Io(t)) if t == FAULT), r.is_ok())
        }
        _ => {
            let mut it = f.extents();
            let mut n = 0;
            let mut fault = false;
            let mut i = 0;
            while i < 4 {
                match it.next() { Some(Ok(_)) => n += 1, Some(Err(Error::Io(t))) => { if t == FAULT { fault = true; } break; }, Some(Err(_)) => break, None => break }
                i += 1;
            }
            core::mem::forget(it);
            (fault, n == 3)
        }
    };
    let d = fs.disk.borrow();
    assert!(!d.inner.oob);
    if d.fired { assert!(fault); } else { assert!(ok); }
    kani::cover!(d.fired && fault_at >= 1);
    kani::cover!(!d.fired);
}
macro_rules! fault_file_case {
    ($name:ident, $ft:expr, $op:expr) => {
        #[kani::proof]
        #[kani::unwind(130)]
        fn $name() { fault_file_check($ft, $op); }
    };
}
/// C09: a single device fault at ANY call position during a File operation is returned as Error::Io(device error).
fault_file_case!(fault_file_read16, FatType::Fat16, 0);
fault_file_case!(fault_file_write_alloc12, FatType::Fat12, 1);
fault_file_case!(fault_file_write_alloc32, FatType::Fat32, 1);
fault_file_case!(fault_file_write_mid16, FatType::Fat16, 2);
fault_file_case!(fault_file_seek12, FatType::Fat12, 3);
fault_file_case!(fault_file_truncate16, FatType::Fat16, 4);
fault_file_case!(fault_file_flush32, FatType::Fat32, 5);
fault_file_case!(fault_file_extents16, FatType::Fat16, 6);

/// C14/C09: flush, fault, flush again. A single device fault at ANY call position of `File::flush` may make that call
/// fail, but it must not lose the pending entry: the retried flush (no further fault) succeeds, and once it has
/// returned the new size is on the device at the entry's position, nothing is pending and the device was flushed
/// after the last write. (A flush that gave up on the entry after a failed write would "succeed" here with the old
/// size on the device.)
fn flush_retry_check(ft: FatType, via_drop: bool) {
    let fault_at: u32 = kani::any();
    let g = geo(ft);
    let mut inner = mk_dev(ft, 3);
    inner.watch_addr = ENTRY_POS + 28; // least significant byte of the size field
    inner.watch_val = 0xA5;
    let dev = crate::verif_support::dev::Faulty::new(inner, fault_at, 120);
    let fs = core::mem::ManuallyDrop::new(mk_fs_plain(dev, &g, any_clock(), false));
    let mut f = core::mem::ManuallyDrop::new(mk_file(&*fs, 3, usize::MAX, 1536, 0));
    f.entry.as_mut().unwrap().set_size(9);
    let r1 = Write::flush(&mut *f);
    let fired = fs.disk.borrow().fired;
    if !fired { assert!(r1.is_ok()); }
    if via_drop {
        // the handle is dropped after the failed flush: the destructor is the retry
        unsafe { core::mem::ManuallyDrop::drop(&mut f); }
    } else {
        let r2 = Write::flush(&mut *f);
        if fired { assert!(r2.is_ok()); }
        assert!(!editor_state(f.entry.as_ref().unwrap()).2);
    }
    let d = fs.disk.borrow();
    assert!(!d.inner.oob);
    assert!(d.inner.watch_val == 9);
    assert!(d.inner.flushes >= 1 && d.inner.writes_at_last_flush == d.inner.total_writes);
    kani::cover!(fired && r1.is_err() && fault_at >= 2);
    kani::cover!(!fired);
}
#[kani::proof]
#[kani::unwind(130)]
fn flush_retry_after_fault16() { flush_retry_check(FatType::Fat16, false); }
#[kani::proof]
#[kani::unwind(130)]
fn flush_then_drop_after_fault32() { flush_retry_check(FatType::Fat32, true); }
