// harnesses for src/io.rs
