// harnesses for table (included into /repo/src/table.rs under cfg(kani))
