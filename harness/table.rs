// Harnesses for src/table.rs (C03, C05, C08, C09, C10, C20). Included as `crate::table::verif` under cfg(kani).
use super::*;
use crate::verif_support::dev::{FaultDev, LogDev, TotDev, FAULT};
use crate::verif_support::spec::{self, MAXN, NB};

fn w(ft: FatType) -> u8 {
    match ft { FatType::Fat12 => 0, FatType::Fat16 => 1, FatType::Fat32 => 2 }
}

/// Entries that fit in the NB-byte window for this width.
fn window_entries(ft: FatType) -> u32 {
    match ft { FatType::Fat12 => (NB as u32 * 2) / 3, FatType::Fat16 => NB as u32 / 2, FatType::Fat32 => NB as u32 / 4 }
}

fn any_total(ft: FatType) -> u32 { any_total_upto(ft, MAXN - 2) }

fn any_total_upto(ft: FatType, cap: u32) -> u32 {
    let total: u32 = kani::any();
    let max = core::cmp::min(core::cmp::min(window_entries(ft), MAXN) - 2, cap);
    kani::assume(total >= 1 && total <= max);
    total
}

// ------------------------------------------------------------------------------------------- decode / encode (C08, C10)

fn get_decode(ft: FatType) {
    let data: [u8; NB] = kani::any();
    let mut dev = TotDev::<NB>::new(data);
    let c: u32 = kani::any();
    kani::assume(c < window_entries(ft));
    let r = read_fat::<_, ()>(&mut dev, ft, c);
    assert!(!dev.oob && dev.writes == 0);
    let v = spec::raw(w(ft), &data, c);
    let cls = spec::classify(w(ft), v);
    match r {
        Ok(FatValue::Free) => assert!(cls == 0),
        Ok(FatValue::Data(n)) => assert!(cls == 1 && n == v),
        Ok(FatValue::Bad) => assert!(cls == 2),
        Ok(FatValue::EndOfChain) => assert!(cls == 3),
        Err(_) => assert!(false),
    }
    kani::cover!(cls == 0);
    kani::cover!(cls == 1);
    kani::cover!(cls == 2);
    kani::cover!(cls == 3 && v != spec::eoc_written(w(ft))); // an end-of-chain marker the library itself never writes
    kani::cover!(ft != FatType::Fat32 || (spec::raw32_full(&data, c) >> 28 != 0 && cls == 1)); // reserved high bits set on a link
}
/// C08: FAT entry decoding equals the specification's classification for every raw value (all end-of-chain
/// markers, bad-cluster mark, FAT32 high nibble ignored).
#[kani::proof]
#[kani::unwind(6)]
fn fat_get_decode12() { get_decode(FatType::Fat12); }
#[kani::proof]
#[kani::unwind(6)]
fn fat_get_decode16() { get_decode(FatType::Fat16); }
#[kani::proof]
#[kani::unwind(6)]
fn fat_get_decode32() { get_decode(FatType::Fat32); }

fn set_frame(ft: FatType) {
    let data: [u8; NB] = kani::any();
    let mut dev = TotDev::<NB>::new(data);
    let n = window_entries(ft);
    let c: u32 = kani::any();
    kani::assume(c < n);
    let sel: u8 = kani::any();
    let link: u32 = kani::any();
    kani::assume(link >= 2 && link < spec::bad_mark(w(ft)));
    let val = match sel & 3 { 0 => FatValue::Free, 1 => FatValue::Bad, 2 => FatValue::EndOfChain, _ => FatValue::Data(link) };
    let r = write_fat::<_, ()>(&mut dev, ft, c, val);
    assert!(r.is_ok() && !dev.oob);
    // the written entry decodes to the value written
    let v = spec::raw(w(ft), &dev.data, c);
    match val {
        FatValue::Free => assert!(v == 0),
        FatValue::Bad => assert!(v == spec::bad_mark(w(ft))),
        FatValue::EndOfChain => assert!(v == spec::eoc_written(w(ft))),
        FatValue::Data(x) => assert!(v == x),
    }
    // FAT32: the reserved top four bits of the entry survive the update
    if ft == FatType::Fat32 {
        assert!(spec::raw32_full(&dev.data, c) & 0xF000_0000 == spec::raw32_full(&data, c) & 0xF000_0000);
    }
    kani::cover!(ft != FatType::Fat32 || spec::raw32_full(&data, c) & 0xF000_0000 != 0);
    // every other entry is unchanged (FAT12 neighbours share a byte with the written entry)
    let k: u32 = kani::any();
    kani::assume(k < n && k != c);
    assert!(spec::raw(w(ft), &dev.data, k) == spec::raw(w(ft), &data, k));
    if ft == FatType::Fat32 {
        assert!(spec::raw32_full(&dev.data, k) == spec::raw32_full(&data, k));
    }
    kani::cover!(k + 1 == c);
    kani::cover!(k == c + 1);
    // bytes after the last whole entry of the window are untouched
    if ft == FatType::Fat12 { assert!(dev.data[NB - 1] == data[NB - 1] || c == n - 1); }
}
/// C08/C10: writing one entry changes exactly that entry (FAT12 nibble sharing, FAT32 reserved bits).
#[kani::proof]
#[kani::unwind(6)]
fn fat_set_frame12() { set_frame(FatType::Fat12); }
#[kani::proof]
#[kani::unwind(6)]
fn fat_set_frame16() { set_frame(FatType::Fat16); }
#[kani::proof]
#[kani::unwind(6)]
fn fat_set_frame32() { set_frame(FatType::Fat32); }

/// must-fail twin: claims FAT32 updates clear the reserved bits.
#[kani::proof]
#[kani::unwind(6)]
fn twin_fat32_set_clears_reserved() {
    let data: [u8; NB] = kani::any();
    let mut dev = TotDev::<NB>::new(data);
    let c: u32 = kani::any();
    kani::assume(c < 8);
    let _ = write_fat::<_, ()>(&mut dev, FatType::Fat32, c, FatValue::EndOfChain);
    assert!(spec::raw32_full(&dev.data, c) >> 28 == 0);
}

// ------------------------------------------------------------------------------------------- allocation (C03, C05, C10, C20)

fn alloc_check(ft: FatType) {
    let data: [u8; NB] = kani::any();
    let old = data;
    let mut dev = TotDev::<NB>::new(data);
    let total = any_total(ft);
    let n = total + 2;
    let rank: [u8; MAXN as usize] = kani::any();
    let wf_before = spec::wf(w(ft), &old, n, &rank);
    // hint as produced by FsInfoSector (never 0 or 1; may be past the end: then the scan starts at 2)
    let hint: Option<u32> = kani::any();
    if let Some(h) = hint { kani::assume(h >= 2); }
    let prev: Option<u32> = kani::any();
    if let Some(p) = prev {
        // callers pass the last cluster of a chain
        kani::assume(p >= 2 && p < n && spec::classify(w(ft), spec::raw(w(ft), &old, p)) == 3);
    }
    let free_before = spec::count_free(w(ft), &old, n);
    let r = alloc_cluster::<_, ()>(&mut dev, ft, prev, hint, total);
    assert!(!dev.oob);
    match r {
        Ok(c) => {
            // in range: never a reserved entry, never a padding entry past the last cluster
            assert!(c >= 2 && c < n);
            // it was free, now it terminates a chain
            assert!(spec::raw(w(ft), &old, c) == 0);
            assert!(spec::raw(w(ft), &dev.data, c) == spec::eoc_written(w(ft)));
            // wrap-around: first free at or after the hint, else first free from the start
            if let Some(h) = hint {
                if h < n {
                    let k: u32 = kani::any();
                    kani::assume(k >= 2 && k < n);
                    if c >= h { if k >= h && k < c { assert!(spec::raw(w(ft), &old, k) != 0); } }
                    else { if k >= h || k < c { assert!(spec::raw(w(ft), &old, k) != 0); } }
                    kani::cover!(c < h);          // the scan wrapped
                    kani::cover!(h == n - 1 && c < h);
                }
                kani::cover!(h == n);             // hint just past the last cluster
                kani::cover!(h > n);
            }
            // linked from prev
            if let Some(p) = prev { assert!(spec::raw(w(ft), &dev.data, p) == c); }
            // frame: every other entry (including the reserved entries 0 and 1 and the padding) is bit-identical
            let k: u32 = kani::any();
            kani::assume(k < window_entries(ft));
            if k != c && Some(k) != prev {
                assert!(spec::raw(w(ft), &dev.data, k) == spec::raw(w(ft), &old, k));
            }
            if ft == FatType::Fat32 {
                assert!(spec::raw32_full(&dev.data, k) & 0xF000_0000 == spec::raw32_full(&old, k) & 0xF000_0000);
            }
            // accounting: exactly one free cluster fewer
            assert!(spec::count_free(w(ft), &dev.data, n) + 1 == free_before);
            // structural invariant preserved (new cluster gets a rank above its predecessor)
            if wf_before {
                let mut rank2 = rank;
                rank2[c as usize] = kani::any();
                if let Some(p) = prev { kani::assume(rank2[c as usize] > rank2[p as usize]); }
                // c had no predecessor besides prev: nobody linked to a free cluster in a consistent table
                if !spec::has_pred(w(ft), &old, n, c) {
                    assert!(spec::wf(w(ft), &dev.data, n, &rank2));
                }
            }
            kani::cover!(prev.is_some() && wf_before);
        }
        Err(Error::NotEnoughSpace) => {
            // out-of-space only when no free cluster exists
            assert!(free_before == 0);
            let k: u32 = kani::any();
            kani::assume(k < window_entries(ft));
            assert!(spec::raw(w(ft), &dev.data, k) == spec::raw(w(ft), &old, k));
            kani::cover!(hint.is_some());
        }
        Err(_) => { assert!(false); }
    }
}
/// C03/C05/C10/C20: alloc_cluster on a fully symbolic table, hint and predecessor.
#[kani::proof]
#[kani::unwind(12)]
fn alloc12() { alloc_check(FatType::Fat12); }
#[kani::proof]
#[kani::unwind(12)]
fn alloc16() { alloc_check(FatType::Fat16); }
#[kani::proof]
#[kani::unwind(12)]
fn alloc32() { alloc_check(FatType::Fat32); }

/// must-fail twin: claims allocation never wraps (result is always at or after the hint).
#[kani::proof]
#[kani::unwind(12)]
fn twin_alloc_never_wraps() {
    let data: [u8; NB] = kani::any();
    let mut dev = TotDev::<NB>::new(data);
    let hint: u32 = kani::any();
    kani::assume(hint >= 2 && hint < 8);
    if let Ok(c) = alloc_cluster::<_, ()>(&mut dev, FatType::Fat16, None, Some(hint), 6) {
        assert!(c >= hint);
    }
}

// ------------------------------------------------------------------------------------------- free / truncate (C03, C05)

/// Walk the chain starting at `head` in `d`; returns (membership bitmap, length, last cluster).
fn chain_of(ft: FatType, d: &[u8; NB], n: u32, head: u32) -> ([bool; MAXN as usize], u32, u32) {
    let mut m = [false; MAXN as usize];
    let mut cur = head;
    let mut len = 0;
    let mut k = 0;
    while k < MAXN - 2 {
        m[cur as usize] = true;
        len += 1;
        let v = spec::raw(w(ft), d, cur);
        if spec::classify(w(ft), v) == 1 && v >= 2 && v < n { cur = v; } else { break; }
        k += 1;
    }
    (m, len, cur)
}

fn free_check(ft: FatType, cap: u32) {
    let data: [u8; NB] = kani::any();
    let old = data;
    let total = any_total_upto(ft, cap);
    let n = total + 2;
    let rank: [u8; MAXN as usize] = kani::any();
    kani::assume(spec::wf(w(ft), &old, n, &rank));
    let head: u32 = kani::any();
    kani::assume(head >= 2 && head < n);
    let hv = spec::classify(w(ft), spec::raw(w(ft), &old, head));
    kani::assume(hv == 1 || hv == 3);                       // an allocated cluster ...
    kani::assume(!spec::has_pred(w(ft), &old, n, head));     // ... that starts a chain (referenced by a directory entry)
    let (member, len, _) = chain_of(ft, &old, n, head);
    let free_before = spec::count_free(w(ft), &old, n);
    let mut dev = TotDev::<NB>::new(data);
    let r = {
        let mut it = ClusterIterator::<&mut TotDev<NB>, (), TotDev<NB>>::new(&mut dev, ft, head);
        it.free()
    };
    assert!(!dev.oob);
    assert!(matches!(r, Ok(x) if x == len));
    let k: u32 = kani::any();
    kani::assume(k < window_entries(ft));
    if k < n && k >= 2 && member[k as usize] {
        assert!(spec::raw(w(ft), &dev.data, k) == 0);
    } else {
        assert!(spec::raw(w(ft), &dev.data, k) == spec::raw(w(ft), &old, k));
    }
    if ft == FatType::Fat32 {
        assert!(spec::raw32_full(&dev.data, k) & 0xF000_0000 == spec::raw32_full(&old, k) & 0xF000_0000);
    }
    assert!(spec::count_free(w(ft), &dev.data, n) == free_before + len);
    assert!(spec::wf(w(ft), &dev.data, n, &rank));
    kani::cover!(len == 1);
    kani::cover!(len >= 3);
}
/// C03/C05: freeing a chain zeroes exactly its clusters, returns its length, keeps the invariant.
#[kani::proof]
#[kani::unwind(12)]
fn free12() { free_check(FatType::Fat12, 5); }
#[kani::proof]
#[kani::unwind(12)]
fn free12_deep() { free_check(FatType::Fat12, 8); }
#[kani::proof]
#[kani::unwind(12)]
fn free16() { free_check(FatType::Fat16, 5); }
#[kani::proof]
#[kani::unwind(12)]
fn free16_deep() { free_check(FatType::Fat16, 8); }
#[kani::proof]
#[kani::unwind(12)]
fn free32() { free_check(FatType::Fat32, 5); }
#[kani::proof]
#[kani::unwind(12)]
fn free32_deep() { free_check(FatType::Fat32, 8); }

fn truncate_check(ft: FatType, cap: u32) {
    let data: [u8; NB] = kani::any();
    let old = data;
    let total = any_total_upto(ft, cap);
    let n = total + 2;
    let rank: [u8; MAXN as usize] = kani::any();
    kani::assume(spec::wf(w(ft), &old, n, &rank));
    let at: u32 = kani::any();
    kani::assume(at >= 2 && at < n);
    let av = spec::raw(w(ft), &old, at);
    let ac = spec::classify(w(ft), av);
    kani::assume(ac == 1 || ac == 3);                       // an allocated cluster of some chain
    // tail = chain starting at the successor of `at`
    let (member, len, _) = if ac == 1 { chain_of(ft, &old, n, av) } else { ([false; MAXN as usize], 0, 0) };
    let free_before = spec::count_free(w(ft), &old, n);
    let mut dev = TotDev::<NB>::new(data);
    let r = {
        let mut it = ClusterIterator::<&mut TotDev<NB>, (), TotDev<NB>>::new(&mut dev, ft, at);
        it.truncate()
    };
    assert!(!dev.oob);
    assert!(matches!(r, Ok(x) if x == len));
    assert!(spec::raw(w(ft), &dev.data, at) == spec::eoc_written(w(ft)));
    let k: u32 = kani::any();
    kani::assume(k < window_entries(ft) && k != at);
    if k < n && k >= 2 && member[k as usize] {
        assert!(spec::raw(w(ft), &dev.data, k) == 0);
    } else {
        assert!(spec::raw(w(ft), &dev.data, k) == spec::raw(w(ft), &old, k));
    }
    assert!(spec::count_free(w(ft), &dev.data, n) == free_before + len);
    assert!(spec::wf(w(ft), &dev.data, n, &rank));
    kani::cover!(len == 0);
    kani::cover!(len >= 2);
}
/// C02/C03/C05: truncating at a cluster makes it the chain end and frees exactly the tail.
#[kani::proof]
#[kani::unwind(12)]
fn truncate12() { truncate_check(FatType::Fat12, 5); }
#[kani::proof]
#[kani::unwind(12)]
fn truncate12_deep() { truncate_check(FatType::Fat12, 8); }
#[kani::proof]
#[kani::unwind(12)]
fn truncate16() { truncate_check(FatType::Fat16, 5); }
#[kani::proof]
#[kani::unwind(12)]
fn truncate16_deep() { truncate_check(FatType::Fat16, 8); }
#[kani::proof]
#[kani::unwind(12)]
fn truncate32() { truncate_check(FatType::Fat32, 5); }
#[kani::proof]
#[kani::unwind(12)]
fn truncate32_deep() { truncate_check(FatType::Fat32, 8); }

/// must-fail twin: claims truncate frees the cluster it is applied to.
#[kani::proof]
#[kani::unwind(12)]
fn twin_truncate_frees_current() {
    let mut data = [0u8; NB];
    data[4] = 3; data[6] = 0xFF; data[7] = 0xFF; // FAT16: 2 -> 3 -> EOC
    let mut dev = TotDev::<NB>::new(data);
    {
        let mut it = ClusterIterator::<&mut TotDev<NB>, (), TotDev<NB>>::new(&mut dev, FatType::Fat16, 2);
        let _ = it.truncate();
    }
    assert!(spec::raw16(&dev.data, 2) == 0);
}

fn count_check(ft: FatType) {
    let data: [u8; NB] = kani::any();
    let mut dev = TotDev::<NB>::new(data);
    let total = any_total(ft);
    let r = count_free_clusters::<_, ()>(&mut dev, ft, total);
    assert!(!dev.oob && dev.writes == 0);
    let c = spec::count_free(w(ft), &data, total + 2);
    assert!(matches!(r, Ok(x) if x == c));
    kani::cover!(c == 0);
    kani::cover!(c == total && total >= 3);
}
/// C05: the counted number of free clusters equals the number of zero entries among clusters 2..total+2.
#[kani::proof]
#[kani::unwind(12)]
fn count_free12() { count_check(FatType::Fat12); }
#[kani::proof]
#[kani::unwind(12)]
fn count_free16() { count_check(FatType::Fat16); }
#[kani::proof]
#[kani::unwind(12)]
fn count_free32() { count_check(FatType::Fat32); }

/// C08: the cluster iterator follows fragmented / out-of-order chains exactly as the links say.
#[kani::proof]
#[kani::unwind(12)]
fn iter_follows_links16() {
    let data: [u8; NB] = kani::any();
    let total = any_total(FatType::Fat16);
    let n = total + 2;
    let rank: [u8; MAXN as usize] = kani::any();
    kani::assume(spec::wf(1, &data, n, &rank));
    let head: u32 = kani::any();
    kani::assume(head >= 2 && head < n);
    let mut dev = TotDev::<NB>::new(data);
    let mut it = ClusterIterator::<&mut TotDev<NB>, (), TotDev<NB>>::new(&mut dev, FatType::Fat16, head);
    let mut cur = head;
    let mut steps = 0;
    while steps < MAXN {
        let v = spec::raw16(&data, cur);
        match it.next() {
            Some(Ok(nx)) => { assert!(spec::classify(1, v) == 1 && nx == v); cur = nx; }
            Some(Err(_)) => assert!(false),
            None => { assert!(spec::classify(1, v) != 1); break; }
        }
        steps += 1;
    }
    kani::cover!(steps >= 3 && cur < head);  // a chain that runs backwards
}

// ------------------------------------------------------------------------------------------- format_fat (C06, C10)

fn format_fat_check(ft: FatType) {
    const FB: usize = 48;
    let mut dev = TotDev::<FB>::new([0u8; FB]);
    let media: u8 = kani::any();
    let bytes_per_fat: u64 = kani::any();
    kani::assume(bytes_per_fat == 24 || bytes_per_fat == 48);
    let entries = (bytes_per_fat * 8 / ft.bits_per_fat_entry() as u64) as u32;
    let total: u32 = kani::any();
    kani::assume(total >= 1 && total <= 64 && total + 2 <= entries);
    let r = format_fat::<_, ()>(&mut dev, ft, media, bytes_per_fat, total);
    assert!(r.is_ok() && !dev.oob);
    let d = &dev.data;
    // reserved entries: media descriptor with all other bits set, then an end-of-chain pattern
    match ft {
        FatType::Fat12 => assert!(d[0] == media && d[1] == 0xFF && d[2] == 0xFF),
        FatType::Fat16 => assert!(d[0] == media && d[1] == 0xFF && d[2] == 0xFF && d[3] == 0xFF),
        FatType::Fat32 => assert!(d[0] == media && d[1] == 0xFF && d[2] == 0xFF && d[3] == 0x0F && d[4] == 0xFF && d[5] == 0xFF && d[6] == 0xFF && d[7] == 0xFF),
    }
    let k: u32 = kani::any();
    kani::assume(k >= 2 && k < entries);
    let v = match ft { FatType::Fat12 => spec::raw12(&d[..], k), FatType::Fat16 => spec::raw16(&d[..], k), FatType::Fat32 => spec::raw32_full(&d[..], k) & 0x0FFF_FFFF };
    if k < total + 2 { assert!(v == 0); } else { assert!(v >= spec::eoc_min(w(ft))); } // data clusters free, padding unusable
    kani::cover!(total + 2 < entries);
    kani::cover!(total + 2 == entries);
}
/// C06/C10: a freshly formatted table has the reserved entries set, all data clusters free and the padding entries
/// past the last cluster marked used.
#[kani::proof]
#[kani::unwind(34)]
fn format_fat12() { format_fat_check(FatType::Fat12); }
#[kani::proof]
#[kani::unwind(34)]
fn format_fat16() { format_fat_check(FatType::Fat16); }
#[kani::proof]
#[kani::unwind(34)]
fn format_fat32() { format_fat_check(FatType::Fat32); }

// ------------------------------------------------------------------------------------------- large volumes (C20)

fn large_access(ft: FatType) {
    let mut dev = LogDev::new(u64::MAX);
    let c: u32 = kani::any();
    let max = match ft { FatType::Fat12 => 4084 + 2, FatType::Fat16 => 65524 + 2, FatType::Fat32 => 0x0FFF_FFF4 + 2 };
    kani::assume(c < max);
    let exp_off = match ft { FatType::Fat12 => c as u64 + c as u64 / 2, FatType::Fat16 => c as u64 * 2, FatType::Fat32 => c as u64 * 4 };
    let exp_len = match ft { FatType::Fat32 => 4, _ => 2 };
    let r = read_fat::<_, ()>(&mut dev, ft, c);
    assert!(r.is_ok());
    assert!(dev.nreads == 1 && dev.r_off == exp_off && dev.r_len == exp_len && dev.nw == 0);
    let r = write_fat::<_, ()>(&mut dev, ft, c, FatValue::EndOfChain);
    assert!(r.is_ok());
    assert!(dev.nw == 1 && dev.w_off[0] == exp_off && dev.w_len[0] == exp_len);
    kani::cover!(c == max - 1);
}
/// C20: table accesses for every cluster number up to the width's maximum touch exactly the entry's bytes (no
/// 32-bit overflow in cluster*4, cluster*2, cluster+cluster/2).
#[kani::proof]
#[kani::unwind(6)]
fn fat_access_large12() { large_access(FatType::Fat12); }
#[kani::proof]
#[kani::unwind(6)]
fn fat_access_large16() { large_access(FatType::Fat16); }
#[kani::proof]
#[kani::unwind(6)]
fn fat_access_large32() { large_access(FatType::Fat32); }

/// C20: an allocation scan on a huge FAT32 table starts at the hinted entry's byte offset and a hint at or past the
/// end restarts from cluster 2 (device returns zero entries, so the first probed entry is taken).
#[kani::proof]
#[kani::unwind(6)]
fn alloc_scan_start_large32() {
    let mut dev = LogDev::new(u64::MAX);
    let total: u32 = kani::any();
    kani::assume(total >= 1 && total <= 0x0FFF_FFF4);
    let hint: Option<u32> = kani::any();
    if let Some(h) = hint { kani::assume(h >= 2); }
    let r = alloc_cluster::<_, ()>(&mut dev, FatType::Fat32, None, hint, total);
    let start = match hint { Some(h) if h < total + 2 => h, _ => 2 };
    assert!(matches!(r, Ok(c) if c == start));
    assert!(dev.nw == 1 && dev.w_off[0] == start as u64 * 4 && dev.w_len[0] == 4);
    kani::cover!(matches!(hint, Some(h) if h == total + 2));
    kani::cover!(matches!(hint, Some(h) if h == total + 1 && total > 0x0800_0000));
}

// ------------------------------------------------------------------------------------------- status flags (C12)

/// C12: the FAT16/FAT32 clean-shutdown / hard-error bits of entry 1 are reported as dirty / io_error.
#[kani::proof]
#[kani::unwind(6)]
fn fat_flags_decode() {
    let data: [u8; NB] = kani::any();
    let mut dev = TotDev::<NB>::new(data);
    let sel: u8 = kani::any();
    let ft = match sel % 3 { 0 => FatType::Fat12, 1 => FatType::Fat16, _ => FatType::Fat32 };
    let r = read_fat_flags::<_, ()>(&mut dev, ft);
    let f = match r { Ok(f) => f, Err(_) => { assert!(false); return; } };
    match ft {
        FatType::Fat12 => assert!(!f.dirty && !f.io_error),
        FatType::Fat16 => { let e = spec::raw16(&data, 1); assert!(f.dirty == (e & 0x8000 == 0) && f.io_error == (e & 0x4000 == 0)); }
        FatType::Fat32 => { let e = spec::raw32_full(&data, 1); assert!(f.dirty == (e & 0x0800_0000 == 0) && f.io_error == (e & 0x0400_0000 == 0)); }
    }
    assert!(dev.writes == 0);
    kani::cover!(f.dirty && ft == FatType::Fat32);
    kani::cover!(!f.dirty && ft == FatType::Fat16);
}

// ------------------------------------------------------------------------------------------- faults (C09)

pub(crate) fn fault_table(ft: FatType) -> [u8; NB] {
    // chain 2 -> 3 -> 5 -> EOC, cluster 4 in use by another chain (EOC), 6.. free; 8 entries
    let mut d = [0u8; NB];
    match ft {
        FatType::Fat12 => {
            // entries: 0=FF8 1=FFF 2=003 3=005 4=FFF 5=FFF 6=000 7=000
            d[0] = 0xF8; d[1] = 0xFF; d[2] = 0xFF;
            d[3] = 0x03; d[4] = 0x50; d[5] = 0x00;
            d[6] = 0xFF; d[7] = 0xFF; d[8] = 0xFF;
        }
        FatType::Fat16 => {
            d[0] = 0xF8; d[1] = 0xFF; d[2] = 0xFF; d[3] = 0xFF;
            d[4] = 3; d[6] = 5; d[8] = 0xFF; d[9] = 0xFF; d[10] = 0xFF; d[11] = 0xFF;
        }
        FatType::Fat32 => {
            d[0] = 0xF8; d[1] = 0xFF; d[2] = 0xFF; d[3] = 0x0F; d[4] = 0xFF; d[5] = 0xFF; d[6] = 0xFF; d[7] = 0x0F;
            d[8] = 3; d[12] = 5; d[16] = 0xFF; d[17] = 0xFF; d[18] = 0xFF; d[19] = 0x0F; d[20] = 0xFF; d[21] = 0xFF; d[22] = 0xFF; d[23] = 0x0F;
        }
    }
    d
}

fn any_ft() -> FatType {
    let sel: u8 = kani::any();
    match sel % 3 { 0 => FatType::Fat12, 1 => FatType::Fat16, _ => FatType::Fat32 }
}

fn fault_free_check(ft: FatType, truncate: bool) {
    let fault_at: u32 = kani::any();
    let mut dev = FaultDev::<NB>::new(fault_table(ft), fault_at, 40);
    let r = {
        let mut it = ClusterIterator::<&mut FaultDev<NB>, crate::verif_support::dev::Tok, FaultDev<NB>>::new(&mut dev, ft, 2);
        if truncate { it.truncate() } else { it.free() }
    };
    assert!(!dev.oob);
    if dev.fired {
        assert!(matches!(r, Err(Error::Io(t)) if t == FAULT));
    } else {
        assert!(matches!(r, Ok(x) if x == if truncate { 2 } else { 3 }));
    }
    kani::cover!(dev.fired && fault_at >= 3);
    kani::cover!(!dev.fired);
}
/// C09: a single device fault at ANY position during chain free / truncate surfaces as Error::Io(the device's
/// error) and the loop terminates (device-call budget).
#[kani::proof]
#[kani::unwind(44)]
fn fault_free12() { fault_free_check(FatType::Fat12, false); }
#[kani::proof]
#[kani::unwind(44)]
fn fault_free16() { fault_free_check(FatType::Fat16, false); }
#[kani::proof]
#[kani::unwind(44)]
fn fault_free32() { fault_free_check(FatType::Fat32, false); }
#[kani::proof]
#[kani::unwind(44)]
fn fault_truncate12() { fault_free_check(FatType::Fat12, true); }
#[kani::proof]
#[kani::unwind(44)]
fn fault_truncate16() { fault_free_check(FatType::Fat16, true); }
#[kani::proof]
#[kani::unwind(44)]
fn fault_truncate32() { fault_free_check(FatType::Fat32, true); }

pub(crate) fn mark_used(ft: FatType, t: &mut [u8; NB], c: u32) {
    match ft {
        FatType::Fat12 => {
            let o = (c + c / 2) as usize;
            if c & 1 == 0 { t[o] = 0xFF; t[o + 1] |= 0x0F; } else { t[o] |= 0xF0; t[o + 1] = 0xFF; }
        }
        FatType::Fat16 => { t[(c * 2) as usize] = 0xFF; t[(c * 2 + 1) as usize] = 0xFF; }
        FatType::Fat32 => { let o = (c * 4) as usize; t[o] = 0xFF; t[o + 1] = 0xFF; t[o + 2] = 0xFF; t[o + 3] = 0x0F; }
    }
}

/// variant 0: hint None, clusters 6 and 7 free            -> Ok(6)
/// variant 1: hint 7, cluster 7 used, 6 free (scan wraps)  -> Ok(6)
/// variant 2: hint 4, volume full                          -> NotEnoughSpace
fn fault_alloc_check(ft: FatType, variant: u8) {
    let fault_at: u32 = kani::any();
    let mut t = fault_table(ft);
    let hint = match variant { 0 => None, 1 => Some(7), _ => Some(4) };
    if variant >= 1 { mark_used(ft, &mut t, 7); }
    if variant == 2 { mark_used(ft, &mut t, 6); }
    let mut dev = FaultDev::<NB>::new(t, fault_at, 40);
    let r = alloc_cluster::<_, crate::verif_support::dev::Tok>(&mut dev, ft, Some(5), hint, 6);
    assert!(!dev.oob);
    if dev.fired {
        assert!(matches!(r, Err(Error::Io(t)) if t == FAULT));
    } else if variant == 2 {
        assert!(matches!(r, Err(Error::NotEnoughSpace)));
    } else {
        assert!(matches!(r, Ok(6)));
    }
    kani::cover!(dev.fired && fault_at >= 2);
    kani::cover!(!dev.fired);
}
macro_rules! fault_alloc_case {
    ($name:ident, $ft:expr, $v:expr) => {
        #[kani::proof]
        #[kani::unwind(44)]
        fn $name() { fault_alloc_check($ft, $v); }
    };
}
/// C09: a device fault during the hinted free-cluster scan / the two table updates is reported as Error::Io, never
/// masked as out-of-space or swallowed by the wrap-around retry.
fault_alloc_case!(fault_alloc12_nohint, FatType::Fat12, 0);
fault_alloc_case!(fault_alloc12_wrap, FatType::Fat12, 1);
fault_alloc_case!(fault_alloc12_full, FatType::Fat12, 2);
fault_alloc_case!(fault_alloc16_nohint, FatType::Fat16, 0);
fault_alloc_case!(fault_alloc16_wrap, FatType::Fat16, 1);
fault_alloc_case!(fault_alloc16_full, FatType::Fat16, 2);
fault_alloc_case!(fault_alloc32_nohint, FatType::Fat32, 0);
fault_alloc_case!(fault_alloc32_wrap, FatType::Fat32, 1);
fault_alloc_case!(fault_alloc32_full, FatType::Fat32, 2);

/// C09: faults during free-cluster counting and flag reading.
#[kani::proof]
#[kani::unwind(70)]
fn fault_count_and_flags() {
    let ft = any_ft();
    let fault_at: u32 = kani::any();
    let mut dev = FaultDev::<NB>::new(fault_table(ft), fault_at, 64);
    let which: bool = kani::any();
    if which {
        let r = count_free_clusters::<_, crate::verif_support::dev::Tok>(&mut dev, ft, 6);
        if dev.fired { assert!(matches!(r, Err(Error::Io(t)) if t == FAULT)); } else { assert!(matches!(r, Ok(2))); }
    } else {
        let r = read_fat_flags::<_, crate::verif_support::dev::Tok>(&mut dev, ft);
        if dev.fired { assert!(matches!(r, Err(Error::Io(t)) if t == FAULT)); } else { assert!(r.is_ok()); }
    }
    kani::cover!(dev.fired && which);
    kani::cover!(dev.fired && !which);
}

/// must-fail twin for the fault harnesses: claims the operation succeeds whatever the fault position.
#[kani::proof]
#[kani::unwind(44)]
fn twin_fault_free_always_ok() {
    let fault_at: u32 = kani::any();
    let mut dev = FaultDev::<NB>::new(fault_table(FatType::Fat16), fault_at, 40);
    let r = {
        let mut it = ClusterIterator::<&mut FaultDev<NB>, crate::verif_support::dev::Tok, FaultDev<NB>>::new(&mut dev, FatType::Fat16, 2);
        it.free()
    };
    assert!(r.is_ok());
}
