// harnesses for boot_sector (included into /repo/src/boot_sector.rs under cfg(kani))
