// Harnesses for src/boot_sector.rs (C06 formatting arithmetic, C07 mount validation, C11/C20 offsets).
// Included as `crate::boot_sector::verif` under cfg(kani); sees the module's private items.
use super::*;
use crate::verif_support::spec;

pub(crate) fn any_bpb() -> BiosParameterBlock {
    BiosParameterBlock {
        bytes_per_sector: kani::any(),
        sectors_per_cluster: kani::any(),
        reserved_sectors: kani::any(),
        fats: kani::any(),
        root_entries: kani::any(),
        total_sectors_16: kani::any(),
        media: kani::any(),
        sectors_per_fat_16: kani::any(),
        sectors_per_track: kani::any(),
        heads: kani::any(),
        hidden_sectors: kani::any(),
        total_sectors_32: kani::any(),
        sectors_per_fat_32: kani::any(),
        extended_flags: kani::any(),
        fs_version: kani::any(),
        root_dir_first_cluster: kani::any(),
        fs_info_sector: kani::any(),
        backup_boot_sector: kani::any(),
        reserved_0: [0; 12],
        drive_num: kani::any(),
        reserved_1: kani::any(),
        ext_sig: kani::any(),
        volume_id: kani::any(),
        volume_label: [0x20; 11],
        fs_type_label: [0x20; 8],
    }
}

fn geo_of(b: &BiosParameterBlock) -> spec::Geo {
    spec::geo(b.bytes_per_sector, b.sectors_per_cluster, b.reserved_sectors, b.fats, b.root_entries, b.total_sectors_16,
              b.total_sectors_32, b.sectors_per_fat_16, b.sectors_per_fat_32)
}

/// The coherence conditions of property C07, evaluated in u64 from the raw fields only.
fn spec_coherent(b: &BiosParameterBlock) -> bool {
    let g = geo_of(b);
    if !(spec::is_pow2(g.bps) && g.bps >= 512 && g.bps <= 4096) { return false; }
    if !spec::is_pow2(g.spc) { return false; }
    if g.fats == 0 || g.spf == 0 || g.reserved == 0 { return false; }
    if g.first_data >= g.total { return false; }          // regions fit, no wrap (u64)
    if g.total > u32::MAX as u64 { return false; }
    let clusters = (g.total - g.first_data) / g.spc;
    let w = spec::width_from_clusters(clusters);
    if (w == 2) != g.is_fat32_by_field { return false; }  // FAT width consistent with the cluster count
    if w == 2 {
        let root = b.root_dir_first_cluster as u64;
        if root < 2 || root >= clusters + 2 { return false; }
        if b.fs_info_sector as u64 >= g.reserved || b.backup_boot_sector as u64 >= g.reserved { return false; }
        if b.root_entries != 0 || b.total_sectors_16 != 0 { return false; }
    } else if b.root_entries == 0 {
        return false;
    }
    true
}

/// C07: validation of ARBITRARY BPB fields never panics or overflows.
#[kani::proof]
fn bpb_validate_total() {
    let bpb = any_bpb();
    let r = bpb.validate::<()>();
    kani::cover!(r.is_ok() && bpb.is_fat32());
    kani::cover!(r.is_ok() && !bpb.is_fat32());
    kani::cover!(r.is_err());
}

/// C07: a BPB is accepted only if its geometry is coherent per the independent u64 evaluation.
#[kani::proof]
fn bpb_accept_coherent() {
    let bpb = any_bpb();
    if bpb.validate::<()>().is_ok() {
        assert!(spec_coherent(&bpb));
        kani::cover!(bpb.is_fat32());
        kani::cover!(!bpb.is_fat32() && bpb.total_sectors_16 == 0);
        kani::cover!(bpb.fats == 3);
    }
}

/// C07: for accepted BPBs the derived geometry equals the independent u64 parse of the same fields.
#[kani::proof]
fn bpb_geometry_agrees() {
    let bpb = any_bpb();
    kani::assume(bpb.validate::<()>().is_ok());
    let g = geo_of(&bpb);
    assert!(u64::from(bpb.root_dir_sectors()) == g.root_sectors);
    assert!(u64::from(bpb.sectors_per_all_fats()) == g.fats * g.spf);
    assert!(u64::from(bpb.first_data_sector()) == g.first_data);
    assert!(u64::from(bpb.total_sectors()) == g.total);
    let clusters = (g.total - g.first_data) / g.spc;
    assert!(u64::from(bpb.total_clusters()) == clusters);
    assert!(u64::from(bpb.cluster_size()) == g.bps * g.spc);
    let ft = FatType::from_clusters(bpb.total_clusters());
    let w = spec::width_from_clusters(clusters);
    assert!(match ft { FatType::Fat12 => w == 0, FatType::Fat16 => w == 1, FatType::Fat32 => w == 2 });
    kani::cover!(ft == FatType::Fat12);
    kani::cover!(ft == FatType::Fat16);
    kani::cover!(ft == FatType::Fat32);
}

/// must-fail twin for bpb_accept_coherent: claims every accepted volume has exactly 2 FATs.
#[kani::proof]
fn twin_bpb_accept_two_fats() {
    let bpb = any_bpb();
    if bpb.validate::<()>().is_ok() {
        assert!(bpb.fats == 2);
    }
}

/// C11/C20: for an accepted BPB, every cluster in [2, total_clusters+2) lies inside the volume; sector and byte
/// offsets are computed without 32-bit wrap-around and equal the u64 reference.
#[kani::proof]
fn bpb_cluster_offset_in_volume() {
    let bpb = any_bpb();
    kani::assume(bpb.validate::<()>().is_ok());
    let g = geo_of(&bpb);
    let total_clusters = bpb.total_clusters();
    let c: u32 = kani::any();
    kani::assume(c >= 2 && c - 2 < total_clusters);
    let sectors = bpb.sectors_from_clusters(c - 2);                       // overflow-checked by Kani
    assert!(u64::from(sectors) == (c as u64 - 2) * g.spc);
    let first = bpb.first_data_sector() + sectors;                        // what FileSystem::sector_from_cluster does
    let off = bpb.bytes_from_sectors(first);
    let ref_off = (g.first_data + (c as u64 - 2) * g.spc) * g.bps;
    assert!(off == ref_off);
    assert!(off + u64::from(bpb.cluster_size()) <= g.total * g.bps);     // last byte of the cluster is inside the volume
    kani::cover!(off > (1u64 << 32));
    kani::cover!(off > (1u64 << 40));
    kani::cover!(c - 2 == total_clusters - 1 && total_clusters > 0x0100_0000);
}

/// C20: clusters_from_bytes / bytes_from_sectors are exact in 64 bits.
#[kani::proof]
fn bpb_byte_sector_conversions() {
    let bpb = any_bpb();
    kani::assume(bpb.validate_bytes_per_sector::<()>().is_ok() && bpb.validate_sectors_per_cluster::<()>().is_ok());
    let s: u32 = kani::any();
    assert!(bpb.bytes_from_sectors(s) == s as u64 * bpb.bytes_per_sector as u64);
    let bytes: u64 = kani::any();
    kani::assume(bytes <= u32::MAX as u64);
    let cs = bpb.cluster_size() as u64;
    let n = bpb.clusters_from_bytes(bytes) as u64;
    assert!(n * cs >= bytes && (n == 0 || (n - 1) * cs < bytes));
}

// ------------------------------------------------------------------------------------------- C06

fn default_opts() -> FormatVolumeOptions { FormatVolumeOptions::new() }

/// C06: with default options formatting succeeds for EVERY sector count from 42 to 2^32-1.
#[kani::proof]
fn fmt_default_all_sizes() {
    let total_sectors: u32 = kani::any();
    kani::assume(total_sectors >= 42);
    let r = format_boot_sector::<()>(&default_opts(), total_sectors);
    assert!(r.is_ok());
}

/// must-fail twin: the threshold 42 is exact (41 sectors cannot be formatted).
#[kani::proof]
fn twin_fmt_default_41() {
    let total_sectors: u32 = kani::any();
    kani::assume(total_sectors >= 41);
    let r = format_boot_sector::<()>(&default_opts(), total_sectors);
    assert!(r.is_ok());
}

/// Independent validity predicate for the result of formatting (C06), in u64.
fn spec_format_valid(b: &BiosParameterBlock, ft: FatType, o: &FormatVolumeOptions, total_sectors: u32) -> bool {
    let g = geo_of(b);
    if g.total != total_sectors as u64 { return false; }
    if b.bytes_per_sector != o.bytes_per_sector || b.fats != o.fats { return false; }
    if let Some(bpc) = o.bytes_per_cluster { if g.bps * g.spc != bpc as u64 { return false; } }
    if !spec_coherent(b) { return false; }
    let clusters = (g.total - g.first_data) / g.spc;
    let w = spec::width_from_clusters(clusters);
    let wt = match ft { FatType::Fat12 => 0, FatType::Fat16 => 1, FatType::Fat32 => 2 };
    if w != wt { return false; }
    if let Some(req) = o.fat_type { if req != ft { return false; } }
    // each table can address every cluster
    if g.spf * g.bps * 8 / spec::bits(w) < clusters + 2 { return false; }
    // all regions fit inside the declared size
    if g.reserved + g.fats * g.spf + g.root_sectors + clusters * g.spc > g.total { return false; }
    if w == 2 {
        if b.root_dir_first_cluster != 2 || b.fs_info_sector != 1 || b.backup_boot_sector != 6 || g.reserved <= 6 { return false; }
        if clusters > 0x0FFF_FFF4 { return false; }
    } else {
        if b.root_entries != o.max_root_dir_entries { return false; }
        if b.total_sectors_16 != 0 && b.total_sectors_32 != 0 { return false; }
    }
    if b.extended_flags != 0 || b.fs_version != 0 || b.reserved_1 != 0 || b.media != o.media { return false; }
    true
}

/// C06: default options, every size: the produced boot sector passes the library's own strict validation AND the
/// independent validity predicate; free space arithmetic (clusters, minus the root cluster on FAT32) is well-defined.
#[kani::proof]
fn fmt_default_valid() {
    let total_sectors: u32 = kani::any();
    kani::assume(total_sectors >= 42);
    let o = default_opts();
    let r = format_boot_sector::<()>(&o, total_sectors);
    if let Ok((boot, ft)) = r {
        assert!(boot.validate::<()>(true).is_ok());
        assert!(spec_format_valid(&boot.bpb, ft, &o, total_sectors));
        assert!(boot.boot_sig == [0x55, 0xAA]);
        kani::cover!(ft == FatType::Fat12);
        kani::cover!(ft == FatType::Fat16);
        kani::cover!(ft == FatType::Fat32);
        kani::cover!(total_sectors == u32::MAX);
    }
}

fn any_fat_type_opt() -> Option<FatType> {
    let k: u8 = kani::any();
    match k & 3 { 0 => None, 1 => Some(FatType::Fat12), 2 => Some(FatType::Fat16), _ => Some(FatType::Fat32) }
}

fn fmt_options_check(bps: u16, fat_type: Option<FatType>) {
    let total_sectors: u32 = kani::any();
    let bpc_shift: u8 = kani::any();
    kani::assume(bpc_shift >= 9 && bpc_shift <= 31);
    let has_bpc: bool = kani::any();
    let fats: u8 = kani::any();
    kani::assume(fats == 1 || fats == 2);
    let has_drive: bool = kani::any();
    let has_label: bool = kani::any();
    let o = FormatVolumeOptions {
        bytes_per_sector: bps,
        total_sectors: Some(total_sectors),
        bytes_per_cluster: if has_bpc { Some(1u32 << bpc_shift) } else { None },
        fat_type,
        max_root_dir_entries: kani::any(),
        fats,
        media: kani::any(),
        sectors_per_track: kani::any(),
        heads: kani::any(),
        drive_num: if has_drive { Some(kani::any()) } else { None },
        volume_id: kani::any(),
        volume_label: if has_label { Some(kani::any()) } else { None },
    };
    // format_volume = format_boot_sector + strict validation (fs.rs); Err must be InvalidInput
    let mut accepted = false;
    match format_boot_sector::<()>(&o, total_sectors) {
        Ok((boot, ft)) => {
            if boot.validate::<()>(true).is_ok() {
                accepted = true;
                assert!(spec_format_valid(&boot.bpb, ft, &o, total_sectors));
                if let Some(req) = fat_type { assert!(req == ft); }
            }
        }
        Err(e) => {
            assert!(matches!(e, Error::InvalidInput));
        }
    }
    kani::cover!(accepted || bps > 4096);
    kani::cover!((accepted && has_bpc) || bps > 4096);
    kani::cover!(!accepted);
}

/// C06: symbolic options (cluster size, FAT count, root entries, label, ids) x every sector count, one harness per
/// (sector size, forced FAT type): never panics; Ok + self-validation => independent validity; Err => InvalidInput.
/// (A symbolic Option<FatType> in ONE query did not finish in 5 min; each concrete case takes 0.5-2 min.)
macro_rules! fmt_case {
    ($name:ident, $bps:expr, $ft:expr) => {
        #[kani::proof]
        fn $name() { fmt_options_check($bps, $ft); }
    };
}
fmt_case!(fmt_options_512_auto, 512, None);
fmt_case!(fmt_options_512_fat12, 512, Some(FatType::Fat12));
fmt_case!(fmt_options_512_fat16, 512, Some(FatType::Fat16));
fmt_case!(fmt_options_512_fat32, 512, Some(FatType::Fat32));
fmt_case!(fmt_options_1024_auto, 1024, None);
fmt_case!(fmt_options_1024_fat12, 1024, Some(FatType::Fat12));
fmt_case!(fmt_options_1024_fat16, 1024, Some(FatType::Fat16));
fmt_case!(fmt_options_1024_fat32, 1024, Some(FatType::Fat32));
fmt_case!(fmt_options_2048_auto, 2048, None);
fmt_case!(fmt_options_2048_fat12, 2048, Some(FatType::Fat12));
fmt_case!(fmt_options_2048_fat16, 2048, Some(FatType::Fat16));
fmt_case!(fmt_options_2048_fat32, 2048, Some(FatType::Fat32));
fmt_case!(fmt_options_4096_auto, 4096, None);
fmt_case!(fmt_options_4096_fat12, 4096, Some(FatType::Fat12));
fmt_case!(fmt_options_4096_fat16, 4096, Some(FatType::Fat16));
fmt_case!(fmt_options_4096_fat32, 4096, Some(FatType::Fat32));
// sector sizes the options builder accepts although no volume can be created with them (thorough tier)
fmt_case!(fmt_options_8192_auto, 8192, None);
fmt_case!(fmt_options_16384_auto, 16384, None);
fmt_case!(fmt_options_32768_auto, 32768, None);
fmt_case!(fmt_options_32768_fat32, 32768, Some(FatType::Fat32));

/// must-fail twin for fmt_options: claims forced FAT16 always succeeds.
#[kani::proof]
fn twin_fmt_forced_fat16_always_ok() {
    let total_sectors: u32 = kani::any();
    kani::assume(total_sectors >= 42);
    let mut o = default_opts();
    o.fat_type = Some(FatType::Fat16);
    assert!(format_boot_sector::<()>(&o, total_sectors).is_ok());
}


/// Accessor for sibling harness modules (BiosParameterBlock::validate is private to this module).
pub(crate) fn bpb_is_valid(b: &BiosParameterBlock) -> bool { b.validate::<()>().is_ok() }
