// harnesses for fs (included into /repo/src/fs.rs under cfg(kani))
