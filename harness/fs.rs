// Harnesses for src/fs.rs (C04, C05, C07, C10, C11, C12, C13, C20). Included as `crate::fs::verif` under cfg(kani).
use super::*;
use crate::verif_support::dev::{LogDev, TotDev, WinDev, FATW};
use crate::verif_support::spec;

pub(crate) type Fs<D, TP> = FileSystem<D, TP, LossyOemCpConverter>;

/// Volume geometry used to build a FileSystem value directly (mount is checked separately, see mount_*).
#[derive(Clone, Copy)]
pub(crate) struct Geo {
    pub ft: FatType,
    pub bps: u16,
    pub spc: u8,
    pub reserved: u16,
    pub fats: u8,
    pub spf: u32,
    pub root_entries: u16,
    pub total_clusters: u32,
    pub ext_flags: u16,
    pub fs_info_sector: u16,
    pub status: u8,
}

impl Geo {
    pub(crate) fn small(ft: FatType, total_clusters: u32) -> Self {
        let is32 = ft == FatType::Fat32;
        Geo { ft, bps: 512, spc: 1, reserved: if is32 { 8 } else { 1 }, fats: 2, spf: 1, root_entries: if is32 { 0 } else { 16 },
              total_clusters, ext_flags: 0, fs_info_sector: 1, status: 0 }
    }
    pub(crate) fn root_sectors(&self) -> u32 { (u32::from(self.root_entries) * 32 + u32::from(self.bps) - 1) / u32::from(self.bps) }
    pub(crate) fn first_data(&self) -> u32 { u32::from(self.reserved) + u32::from(self.fats) * self.spf + self.root_sectors() }
    pub(crate) fn total_sectors(&self) -> u32 { self.first_data() + self.total_clusters * u32::from(self.spc) }
    pub(crate) fn fat_base(&self) -> u64 { u64::from(self.reserved) * u64::from(self.bps) }
    pub(crate) fn fat_stride(&self) -> u64 { u64::from(self.spf) * u64::from(self.bps) }
    pub(crate) fn root_base(&self) -> u64 { (u64::from(self.reserved) + u64::from(self.fats) * u64::from(self.spf)) * u64::from(self.bps) }
    pub(crate) fn cluster_off(&self, c: u32) -> u64 { (u64::from(self.first_data()) + u64::from(c - 2) * u64::from(self.spc)) * u64::from(self.bps) }
    pub(crate) fn limit(&self) -> u64 { u64::from(self.total_sectors()) * u64::from(self.bps) }
    pub(crate) fn cluster_size(&self) -> u32 { u32::from(self.bps) * u32::from(self.spc) }
    pub(crate) fn bpb(&self) -> BiosParameterBlock {
        let is32 = self.ft == FatType::Fat32;
        let ts = self.total_sectors();
        BiosParameterBlock {
            bytes_per_sector: self.bps, sectors_per_cluster: self.spc, reserved_sectors: self.reserved, fats: self.fats,
            root_entries: self.root_entries,
            total_sectors_16: if !is32 && ts < 0x10000 { ts as u16 } else { 0 },
            media: 0xF8,
            sectors_per_fat_16: if is32 { 0 } else { self.spf as u16 },
            total_sectors_32: if !is32 && ts < 0x10000 { 0 } else { ts },
            sectors_per_fat_32: if is32 { self.spf } else { 0 },
            extended_flags: self.ext_flags,
            root_dir_first_cluster: if is32 { 2 } else { 0 },
            fs_info_sector: if is32 { self.fs_info_sector } else { 0 },
            backup_boot_sector: if is32 { 6 } else { 0 },
            reserved_1: self.status,
            ext_sig: 0x29,
            ..BiosParameterBlock::default()
        }
    }
}

/// Build a FileSystem directly from a geometry (what FileSystem::new would cache), with a chosen device, clock,
/// FS-info cache and "last status byte written" state.
pub(crate) fn mk_fs<D: ReadWriteSeek, TP>(dev: D, g: &Geo, tp: TP, update_accessed_date: bool, fs_info: FsInfoSector,
                                         cur: FsStatusFlags) -> Fs<D, TP> {
    FileSystem {
        disk: RefCell::new(dev),
        options: FsOptions { update_accessed_date, oem_cp_converter: LossyOemCpConverter::new(), time_provider: tp, strict: true },
        fat_type: g.ft,
        bpb: g.bpb(),
        first_data_sector: g.first_data(),
        root_dir_sectors: g.root_sectors(),
        total_clusters: g.total_clusters,
        fs_info: RefCell::new(fs_info),
        current_status_flags: Cell::new(cur),
    }
}

/// Same with nothing pending: FS-info cache unknown and clean, status byte as found at mount.
pub(crate) fn mk_fs_plain<D: ReadWriteSeek, TP>(dev: D, g: &Geo, tp: TP, update_accessed_date: bool) -> Fs<D, TP> {
    mk_fs(dev, g, tp, update_accessed_date, FsInfoSector::default(), FsStatusFlags::decode(g.status))
}
/// Accessors for sibling harness modules (the fields are private to fs.rs).
pub(crate) fn fs_pending(fs: &Fs<impl ReadWriteSeek, impl Sized>) -> (bool, FsStatusFlags, Option<u32>, Option<u32>) {
    let i = fs.fs_info.borrow();
    (i.dirty, fs.current_status_flags.get(), i.free_cluster_count, i.next_free_cluster)
}

pub(crate) fn any_ft() -> FatType {
    let sel: u8 = kani::any();
    match sel % 3 { 0 => FatType::Fat12, 1 => FatType::Fat16, _ => FatType::Fat32 }
}
fn w(ft: FatType) -> u8 { match ft { FatType::Fat12 => 0, FatType::Fat16 => 1, FatType::Fat32 => 2 } }

pub(crate) fn any_fs_info(total: u32) -> FsInfoSector {
    // values as they are after FsInfoSector::validate_and_fix + deserialize (hint never 0/1, in range or None)
    let free: Option<u32> = kani::any();
    if let Some(n) = free { kani::assume(n <= total); }
    let next: Option<u32> = kani::any();
    if let Some(n) = next { kani::assume(n >= 2 && n <= total + 2); }
    FsInfoSector { free_cluster_count: free, next_free_cluster: next, dirty: kani::any() }
}

pub(crate) fn win_for(g: &Geo) -> WinDev {
    WinDev::new(g.limit(), g.fat_base(), g.fat_stride(), if g.ext_flags & 0x80 == 0 { g.fats.min(2) } else { g.fats.min(2) }, g.root_base())
}

// ------------------------------------------------------------------------------------------- FS-info sector (C04, C05, C07, C20)

/// C04/C05: FsInfoSector::serialize writes the three signatures and the two counters at the specification's
/// offsets (0, 484, 488, 492, 508) of a 512-byte sector, zeroes elsewhere; deserialize returns the same values.
#[kani::proof]
#[kani::unwind(514)]
fn fsinfo_roundtrip() {
    let free: Option<u32> = kani::any();
    let next: Option<u32> = kani::any();
    if let Some(n) = free { kani::assume(n != 0xFFFF_FFFF); }
    if let Some(n) = next { kani::assume(n != 0xFFFF_FFFF && n >= 2); }
    let s = FsInfoSector { free_cluster_count: free, next_free_cluster: next, dirty: true };
    let mut dev = TotDev::<512>::new([0xAA; 512]);
    assert!(s.serialize(&mut dev).is_ok());
    assert!(!dev.oob && dev.pos == 512);
    let d = &dev.data;
    let word = |o: usize| (d[o] as u32) | ((d[o + 1] as u32) << 8) | ((d[o + 2] as u32) << 16) | ((d[o + 3] as u32) << 24);
    assert!(word(0) == 0x4161_5252 && word(484) == 0x6141_7272 && word(508) == 0xAA55_0000);
    assert!(word(488) == free.unwrap_or(0xFFFF_FFFF));
    assert!(word(492) == next.unwrap_or(0xFFFF_FFFF));
    let k: usize = kani::any();
    kani::assume((k >= 4 && k < 484) || (k >= 496 && k < 508));
    assert!(d[k] == 0);
    dev.pos = 0;
    let back = FsInfoSector::deserialize(&mut dev);
    match back {
        Ok(b) => assert!(b.free_cluster_count == free && b.next_free_cluster == next && !b.dirty),
        Err(_) => assert!(false),
    }
    kani::cover!(free.is_none() && next.is_some());
}

/// C07: FS-info parsing of ARBITRARY sector bytes never panics; it is rejected iff a signature is wrong; reserved
/// hint values 0/1 and the "unknown" value 0xFFFFFFFF are dropped; validate_and_fix keeps only in-range values.
#[kani::proof]
#[kani::unwind(514)]
fn fsinfo_parse_total() {
    let mut data = [0u8; 512];
    let lead: u32 = kani::any();
    let struc: u32 = kani::any();
    let trail: u32 = kani::any();
    let free: u32 = kani::any();
    let next: u32 = kani::any();
    let filler: u8 = kani::any();
    data[100] = filler; data[500] = filler;
    data[0..4].copy_from_slice(&lead.to_le_bytes());
    data[484..488].copy_from_slice(&struc.to_le_bytes());
    data[488..492].copy_from_slice(&free.to_le_bytes());
    data[492..496].copy_from_slice(&next.to_le_bytes());
    data[508..512].copy_from_slice(&trail.to_le_bytes());
    let mut dev = TotDev::<512>::new(data);
    let r = FsInfoSector::deserialize(&mut dev);
    let sig_ok = lead == 0x4161_5252 && struc == 0x6141_7272 && trail == 0xAA55_0000;
    match r {
        Ok(mut s) => {
            assert!(sig_ok);
            assert!(s.free_cluster_count == if free == 0xFFFF_FFFF { None } else { Some(free) });
            assert!(s.next_free_cluster == if next == 0xFFFF_FFFF || next < 2 { None } else { Some(next) });
            let total: u32 = kani::any();
            kani::assume(total >= 1 && total <= 0x0FFF_FFF4);
            s.validate_and_fix(total);
            if let Some(n) = s.free_cluster_count { assert!(n <= total && n == free); }
            if let Some(n) = s.next_free_cluster { assert!(n >= 2 && n <= total + 2 && n == next); }
            if free <= total { assert!(s.free_cluster_count == Some(free)); }
            kani::cover!(s.free_cluster_count.is_none() && free != 0xFFFF_FFFF);
            kani::cover!(s.next_free_cluster == Some(total + 2));
        }
        Err(Error::CorruptedFileSystem) => assert!(!sig_ok),
        Err(_) => assert!(false),
    }
    assert!(dev.writes == 0);
}

// ------------------------------------------------------------------------------------------- DiskSlice (C10, C11)

/// C10/C11: a DiskSlice write is replicated to exactly `mirrors` consecutive copies at begin+offset+i*size, clipped
/// to the slice; nothing else is written; the cursor advances by the clipped length.
#[kani::proof]
#[kani::unwind(5)]
fn diskslice_mirror_write() {
    let begin: u64 = kani::any();
    let size: u64 = kani::any();
    kani::assume(begin <= (1u64 << 42) && size >= 1 && size <= (1u64 << 41));
    let mirrors: u8 = kani::any();
    kani::assume(mirrors >= 1 && mirrors <= 3);
    let mut dev = LogDev::new(u64::MAX);
    let off: u64 = kani::any();
    kani::assume(off <= size);
    let len: usize = kani::any();
    kani::assume(len <= 8);
    let buf: [u8; 8] = kani::any();
    let n = {
        let mut sl = DiskSlice::<&mut LogDev, LogDev>::new(begin, size, mirrors, &mut dev);
        assert!(matches!(sl.seek(SeekFrom::Start(off)), Ok(p) if p == off));
        let n = match sl.write(&buf[..len]) { Ok(n) => n, Err(_) => { assert!(false); 0 } };
        assert!(sl.abs_pos() == begin + off + n as u64);
        n
    };
    let clipped = core::cmp::min(len as u64, size - off);
    assert!(n as u64 == clipped);
    if clipped == 0 {
        assert!(dev.nw == 0);
    } else {
        assert!(dev.nw == mirrors as usize && !dev.overflow);
        let i: usize = kani::any();
        kani::assume(i < mirrors as usize);
        assert!(dev.w_off[i] == begin + off + i as u64 * size && dev.w_len[i] == clipped && dev.w_first[i] == buf[0]);
    }
    kani::cover!(clipped < len as u64 && clipped > 0);
    kani::cover!(mirrors == 3 && clipped == 8);
}

/// C11: DiskSlice reads and seeks never leave [begin, begin+size]; seeking past the end or before 0 is InvalidInput.
#[kani::proof]
#[kani::unwind(5)]
fn diskslice_read_seek_bounds() {
    let begin: u64 = kani::any();
    let size: u64 = kani::any();
    kani::assume(begin <= (1u64 << 42) && size <= (1u64 << 42));
    let mut dev = LogDev::new(u64::MAX);
    let mut sl = DiskSlice::<&mut LogDev, LogDev>::new(begin, size, 1, &mut dev);
    let off0: u64 = kani::any();
    kani::assume(off0 <= size);
    sl.offset = off0;
    let kind: u8 = kani::any();
    let x: i64 = kani::any();
    let pos = match kind % 3 { 0 => SeekFrom::Start(x as u64), 1 => SeekFrom::Current(x), _ => SeekFrom::End(x) };
    let target: i128 = match kind % 3 { 0 => (x as u64) as i128, 1 => off0 as i128 + x as i128, _ => size as i128 + x as i128 };
    match sl.seek(pos) {
        Ok(p) => { assert!(target >= 0 && target <= size as i128 && p as i128 == target && sl.offset == p); }
        Err(Error::InvalidInput) => { assert!(target < 0 || target > size as i128); assert!(sl.offset == off0); }
        Err(_) => assert!(false),
    }
    let len: usize = kani::any();
    kani::assume(len <= 4);
    let mut buf = [0u8; 4];
    let o = sl.offset;
    match sl.read(&mut buf[..len]) {
        Ok(n) => { assert!(n as u64 == core::cmp::min(len as u64, size - o)); assert!(sl.offset == o + n as u64 && sl.offset <= size); }
        Err(_) => assert!(false),
    }
    drop(sl);
    assert!(dev.r_off == begin + o && dev.r_off + dev.r_len <= begin + size && dev.nw == 0);
    kani::cover!(kind % 3 == 2 && x < 0);
}

/// C08/C10: table selection. With mirroring on, one table write goes to all `fats` copies starting at the first
/// table; with mirroring off only the active copy (low four bits of the flags) is written.
#[kani::proof]
#[kani::unwind(6)]
fn fat_slice_select() {
    let mut bpb = crate::boot_sector::verif::any_bpb();
    kani::assume(bpb.bytes_per_sector == 512 || bpb.bytes_per_sector == 4096);
    kani::assume(bpb.fats >= 1 && bpb.fats <= 3);
    kani::assume(bpb.sectors_per_fat() >= 1);
    // validated volumes keep all tables inside the 32-bit sector range (checked by C07's harnesses)
    kani::assume(u64::from(bpb.reserved_sectors) + u64::from(bpb.fats) * u64::from(bpb.sectors_per_fat()) <= u64::from(u32::MAX));
    if !bpb.mirroring_enabled() { kani::assume(bpb.active_fat() < u16::from(bpb.fats)); } // documented meaning of the field
    bpb.reserved_0 = [0; 12];
    let mut dev = LogDev::new(u64::MAX);
    {
        let mut sl = fat_slice::<LogDev, &mut LogDev>(&mut dev, &bpb);
        assert!(sl.write(&[0x5A]).is_ok());
    }
    let bps = bpb.bytes_per_sector as u64;
    let spf = bpb.sectors_per_fat() as u64;
    let res = bpb.reserved_sectors as u64;
    if bpb.extended_flags & 0x80 == 0 {
        assert!(dev.nw == bpb.fats as usize);
        let i: usize = kani::any();
        kani::assume(i < bpb.fats as usize);
        assert!(dev.w_off[i] == (res + i as u64 * spf) * bps && dev.w_len[i] == 1);
    } else {
        let active = (bpb.extended_flags & 0x0F) as u64;
        assert!(dev.nw == 1 && dev.w_off[0] == (res + active * spf) * bps);
        kani::cover!(active == 2);
    }
    kani::cover!(bpb.extended_flags & 0x80 == 0 && bpb.fats == 3);
    kani::cover!(bpb.is_fat32() && spf > 0x0010_0000);
}

// ------------------------------------------------------------------------------------------- dirty flag (C11, C12, C13)

fn any_flags() -> FsStatusFlags { FsStatusFlags { dirty: kani::any(), io_error: kani::any() } }

/// C12/C11/C13: set_dirty_flag writes at most ONE byte, at 0x25 (FAT12/16) or 0x41 (FAT32); the value keeps the
/// mount-time dirty/error bits and adds the dirty bit; nothing is written when the on-disk byte already has it;
/// set_dirty_flag(false) restores the mount-time flags.
#[kani::proof]
#[kani::unwind(4)]
fn set_dirty_step() {
    let ft = any_ft();
    let mut g = Geo::small(ft, 6);
    g.status = kani::any();
    let mount = FsStatusFlags::decode(g.status);
    // invariant: the last byte written is the mount flags, possibly with dirty added
    let cur = FsStatusFlags { dirty: kani::any(), io_error: mount.io_error };
    kani::assume(cur.dirty || !mount.dirty);
    let fs = core::mem::ManuallyDrop::new(mk_fs(LogDev::new(g.limit()), &g, crate::time::NullTimeProvider::new(), false, FsInfoSector::default(), cur));
    let want: bool = kani::any();
    assert!(fs.set_dirty_flag(want).is_ok());
    let d = fs.disk.borrow();
    let new = fs.current_status_flags.get();
    let target = FsStatusFlags { dirty: mount.dirty || want, io_error: mount.io_error };
    assert!(new == target);
    if target == cur {
        assert!(d.nw == 0);
    } else {
        assert!(d.nw == 1 && d.w_len[0] == 1);
        assert!(d.w_off[0] == if ft == FatType::Fat32 { 0x41 } else { 0x25 });
        assert!(d.w_first[0] & 1 == target.dirty as u8 && (d.w_first[0] >> 1) & 1 == target.io_error as u8);
        // bits that were set at mount time are never cleared (all eight bits of the byte)
        assert!(d.w_first[0] & g.status == g.status);
        assert!(d.w_first[0] & !1 == g.status & !1);
    }
    kani::cover!(d.nw == 1 && want);
    kani::cover!(d.nw == 1 && !want);
    kani::cover!(d.nw == 0 && want);
}

/// C12: a clean unmount restores the status byte to its mount-time value (all eight bits).
#[kani::proof]
#[kani::unwind(4)]
fn unmount_restores_status() {
    let ft = any_ft();
    let mut g = Geo::small(ft, 6);
    g.status = kani::any();
    let mount = FsStatusFlags::decode(g.status);
    let cur = FsStatusFlags { dirty: true, io_error: mount.io_error };
    let fs = core::mem::ManuallyDrop::new(mk_fs(LogDev::new(g.limit()), &g, crate::time::NullTimeProvider::new(), false, FsInfoSector::default(), cur));
    assert!(fs.unmount_internal().is_ok());
    let d = fs.disk.borrow();
    if mount.dirty {
        assert!(d.nw == 0);   // was dirty at mount: stays dirty
    } else {
        assert!(d.nw == 1 && d.w_first[0] == g.status);
    }
    kani::cover!(mount.dirty);
    kani::cover!(!mount.dirty && mount.io_error);
    kani::cover!(!mount.dirty && g.status & 0xFC != 0);
}

/// C12: every write that goes through the FS adapter (FAT and fixed-root updates) leaves the on-disk dirty bit set
/// when it returns.
#[kani::proof]
#[kani::unwind(4)]
fn adapter_write_sets_dirty() {
    let ft = any_ft();
    let mut g = Geo::small(ft, 6);
    g.status = kani::any();
    let mount = FsStatusFlags::decode(g.status);
    let cur = FsStatusFlags { dirty: kani::any(), io_error: mount.io_error };
    kani::assume(cur.dirty || !mount.dirty);
    let fs = core::mem::ManuallyDrop::new(mk_fs(LogDev::new(g.limit()), &g, crate::time::NullTimeProvider::new(), false, FsInfoSector::default(), cur));
    let len: usize = kani::any();
    kani::assume(len <= 4);
    let buf = [7u8; 4];
    let mut io = FsIoAdapter { fs: &*fs };
    let pos: u64 = kani::any();
    kani::assume(pos < g.limit());
    assert!(io.seek(SeekFrom::Start(pos)).is_ok());
    let r = io.write(&buf[..len]);
    assert!(matches!(r, Ok(n) if n == len));
    let d = fs.disk.borrow();
    if len > 0 {
        assert!(fs.current_status_flags.get().dirty);
        if !cur.dirty {
            // the status byte was written in this very call
            assert!(d.nw == 2 && d.w_len[1] == 1 && d.w_first[1] & 1 == 1);
            assert!(d.w_off[1] == if ft == FatType::Fat32 { 0x41 } else { 0x25 });
        } else {
            assert!(d.nw == 1);
        }
        assert!(d.w_off[0] == pos && d.w_len[0] == len as u64);
    } else {
        assert!(fs.current_status_flags.get() == cur);
    }
    kani::cover!(len > 0 && !cur.dirty);
}

/// C12: read_status_flags reports dirty when the boot-sector byte says so or when the FAT16/32 entry-1 bit is clear.
#[kani::proof]
#[kani::unwind(6)]
fn read_status_flags_reports_dirty() {
    let ft = any_ft();
    let mut g = Geo::small(ft, 6);
    g.status = kani::any();
    let mut dev = win_for(&g);
    dev.fat0 = kani::any();
    let fat0 = dev.fat0;
    let fs = core::mem::ManuallyDrop::new(mk_fs(dev, &g, crate::time::NullTimeProvider::new(), false, FsInfoSector::default(), FsStatusFlags::decode(g.status)));
    let r = fs.read_status_flags();
    let f = match r { Ok(f) => f, Err(_) => { assert!(false); return; } };
    let fat_dirty = match ft {
        FatType::Fat12 => false,
        FatType::Fat16 => spec::raw16(&fat0, 1) & 0x8000 == 0,
        FatType::Fat32 => spec::raw32_full(&fat0, 1) & 0x0800_0000 == 0,
    };
    assert!(f.dirty() == ((g.status & 1 != 0) || fat_dirty));
    let d = fs.disk.borrow();
    assert!(!d.oob && d.total_writes == 0);
    kani::cover!(f.dirty() && g.status & 1 == 0);
    kani::cover!(!f.dirty());
}

// ------------------------------------------------------------------------------------------- accounting (C05, C10, C11, C13)

/// Concrete 8-entry tables used by the FileSystem-level ("glue") harnesses, chosen by a symbolic selector:
/// 0: chain 2->3->5, 4 used, 6 and 7 free   1: same but 7 used   2: volume full   3: only 2->3->5 and 4 used, hint region free
pub(crate) fn sample_table(ft: FatType, variant: u8) -> [u8; FATW] {
    let mut t = crate::table::verif::fault_table(ft);
    if variant == 1 || variant == 2 { crate::table::verif::mark_used(ft, &mut t, 7); }
    if variant == 2 { crate::table::verif::mark_used(ft, &mut t, 6); }
    t
}

fn fs_alloc_check(ft: FatType, mode: u8, variant: u8, hint: Option<u32>, has_prev: bool, zero: bool) {
    let total: u32 = 6;
    let mut g = Geo::small(ft, total);
    // mode 0: mirroring on; 1/2: mirroring off, active copy 0/1
    if mode > 0 { g.ext_flags = 0x80 | (mode as u16 - 1); }
    let act = if mode == 2 { 1 } else { 0 };
    let mut dev = win_for(&g);
    // mirroring: both copies equal; otherwise the inactive copy is deliberately different (a full table)
    dev.fat0 = if mode == 2 { sample_table(ft, 2) } else { sample_table(ft, variant) };
    dev.fat1 = if mode == 1 { sample_table(ft, 2) } else { sample_table(ft, variant) };
    let old_act = if act == 0 { dev.fat0 } else { dev.fat1 };
    let old_other = if act == 0 { dev.fat1 } else { dev.fat0 };
    let n = total + 2;
    let free_before = spec::count_free(w(ft), &old_act, n);
    let has_count: bool = kani::any();
    let info = FsInfoSector { free_cluster_count: if has_count { Some(free_before) } else { None }, next_free_cluster: hint, dirty: kani::any() };
    let fs = core::mem::ManuallyDrop::new(mk_fs(dev, &g, crate::time::NullTimeProvider::new(), false, info, FsStatusFlags::decode(0)));
    let prev = if has_prev { Some(5) } else { None };
    let r = fs.alloc_cluster(prev, zero);
    let d = fs.disk.borrow();
    assert!(!d.oob);
    let info2 = fs.fs_info.borrow();
    match r {
        Ok(c) => {
            let new_act = if act == 0 { d.fat0 } else { d.fat1 };
            let new_other = if act == 0 { d.fat1 } else { d.fat0 };
            assert!(c >= 2 && c < n && spec::raw(w(ft), &old_act, c) == 0);
            assert!(spec::count_free(w(ft), &new_act, n) + 1 == free_before);
            // cached count stays exact, hint stays in [2, total+2]
            if has_count { assert!(info2.free_cluster_count == Some(free_before - 1) && info2.dirty); } else { assert!(info2.free_cluster_count.is_none()); }
            assert!(matches!(info2.next_free_cluster, Some(h) if h == c + 1 && h >= 2 && h <= total + 2));
            // table copies: identical after if mirroring, the inactive copy untouched otherwise
            if mode == 0 { assert!(d.fat0 == d.fat1); } else { assert!(new_other == old_other); }
            if has_prev { assert!(spec::raw(w(ft), &new_act, 5) == c); }
            // zeroing covers exactly the new cluster; no other non-table write except the status byte
            let base = g.cluster_off(c);
            let cs = g.cluster_size() as u64;
            assert!(!d.overflow);
            let mut i = 0;
            let mut zeroed = 0u64;
            while i < d.nw {
                if d.w_off[i] == 0x25 || d.w_off[i] == 0x41 { assert!(d.w_len[i] == 1 && d.w_first[i] & 1 == 1); }
                else { assert!(zero && d.w_off[i] == base + zeroed && d.w_first[i] == 0); zeroed += d.w_len[i]; }
                i += 1;
            }
            assert!(zeroed == if zero { cs } else { 0 });
            assert!(fs.current_status_flags.get().dirty);
        }
        Err(Error::NotEnoughSpace) => {
            assert!(free_before == 0);
            assert!(d.fat0 == (if act == 0 { old_act } else { old_other }) && d.fat1 == (if act == 0 { old_other } else { old_act }) && d.nw == 0);
            assert!(info2.free_cluster_count == if has_count { Some(0) } else { None });
        }
        Err(_) => assert!(false),
    }
    kani::cover!(has_count);
    kani::cover!(!has_count);
}
/// C05/C10/C11/C12: FileSystem::alloc_cluster through the real FAT slice ("glue" level: one harness per concrete
/// configuration of table contents / mirroring mode / hint / predecessor / zeroing, with the cached counters and
/// latches symbolic; the fully symbolic table is decided by table::verif::alloc*): cached free count stays exact,
/// hint in range, all FAT copies stay identical (mirroring) or only the active one changes, zeroing hits exactly the
/// new cluster, the dirty bit is set; NotEnoughSpace only on a full table and then nothing changes.
macro_rules! fs_alloc_case {
    ($name:ident, $ft:expr, $mode:expr, $variant:expr, $hint:expr, $prev:expr, $zero:expr) => {
        #[kani::proof]
        #[kani::unwind(40)]
        fn $name() { fs_alloc_check($ft, $mode, $variant, $hint, $prev, $zero); }
    };
}
macro_rules! fs_alloc_cases {
    ($ft:expr, $m0z:ident, $m0:ident, $m1z:ident, $m2:ident, $h2:ident, $hwrap:ident, $hend:ident, $full:ident) => {
        fs_alloc_case!($m0z, $ft, 0, 0, None, true, true);
        fs_alloc_case!($m0, $ft, 0, 0, None, false, false);
        fs_alloc_case!($m1z, $ft, 1, 0, None, true, true);
        fs_alloc_case!($m2, $ft, 2, 0, None, true, false);
        fs_alloc_case!($h2, $ft, 0, 0, Some(2), false, false);
        fs_alloc_case!($hwrap, $ft, 0, 1, Some(7), true, false);
        fs_alloc_case!($hend, $ft, 0, 0, Some(8), false, true);
        fs_alloc_case!($full, $ft, 0, 2, Some(3), true, true);
    };
}
fs_alloc_cases!(FatType::Fat12, fs_alloc12_mirror_zero, fs_alloc12_mirror, fs_alloc12_active0_zero, fs_alloc12_active1, fs_alloc12_hint2, fs_alloc12_hint_wrap, fs_alloc12_hint_end, fs_alloc12_full);
fs_alloc_cases!(FatType::Fat16, fs_alloc16_mirror_zero, fs_alloc16_mirror, fs_alloc16_active0_zero, fs_alloc16_active1, fs_alloc16_hint2, fs_alloc16_hint_wrap, fs_alloc16_hint_end, fs_alloc16_full);
fs_alloc_cases!(FatType::Fat32, fs_alloc32_mirror_zero, fs_alloc32_mirror, fs_alloc32_active0_zero, fs_alloc32_active1, fs_alloc32_hint2, fs_alloc32_hint_wrap, fs_alloc32_hint_end, fs_alloc32_full);

fn fs_free_check(ft: FatType, variant: u8, truncate: bool, c: u32) {
    let total: u32 = 6;
    let g = Geo::small(ft, total);
    let mut dev = win_for(&g);
    dev.fat0 = sample_table(ft, variant);
    dev.fat1 = dev.fat0;
    let old = dev.fat0;
    let n = total + 2;
    // free: chain heads 2 (length 3) and 4 (length 1); truncate: any allocated cluster
    let expect_freed = if truncate { match c { 2 => 2, 3 => 1, _ => 0 } } else if c == 2 { 3 } else { 1 };
    let free_before = spec::count_free(w(ft), &old, n);
    let has_count: bool = kani::any();
    let info = FsInfoSector { free_cluster_count: if has_count { Some(free_before) } else { None }, next_free_cluster: None, dirty: false };
    let fs = core::mem::ManuallyDrop::new(mk_fs(dev, &g, crate::time::NullTimeProvider::new(), false, info, FsStatusFlags::decode(0)));
    let r = if truncate { fs.truncate_cluster_chain(c) } else { fs.free_cluster_chain(c) };
    assert!(r.is_ok());
    let d = fs.disk.borrow();
    assert!(!d.oob && d.fat0 == d.fat1);
    let after = spec::count_free(w(ft), &d.fat0, n);
    assert!(after == free_before + expect_freed);
    let info2 = fs.fs_info.borrow();
    assert!(info2.free_cluster_count == if has_count { Some(after) } else { None });
    // C05: a changed cached count is latched for write-back, so that the FS-info sector written at unmount carries it
    // (a session that only frees clusters must still persist the new count)
    if has_count && expect_freed > 0 { assert!(info2.dirty); }
    // only the status byte is written outside the tables
    assert!(d.nw <= 1);
    if d.nw == 1 { assert!(d.w_len[0] == 1 && (d.w_off[0] == 0x25 || d.w_off[0] == 0x41)); }
    if d.fat_writes > 0 { assert!(fs.current_status_flags.get().dirty); }
    kani::cover!(has_count);
    kani::cover!(!has_count);
}
/// C05/C10/C12: freeing / truncating a chain through the FileSystem keeps the cached count exact, the copies
/// identical and sets the dirty bit (glue level, see fs_alloc*).
macro_rules! fs_free_case {
    ($name:ident, $ft:expr, $variant:expr, $trunc:expr, $c:expr) => {
        #[kani::proof]
        #[kani::unwind(40)]
        fn $name() { fs_free_check($ft, $variant, $trunc, $c); }
    };
}
fs_free_case!(fs_free12_chain, FatType::Fat12, 0, false, 2);
fs_free_case!(fs_free12_single, FatType::Fat12, 1, false, 4);
fs_free_case!(fs_truncate12_head, FatType::Fat12, 0, true, 2);
fs_free_case!(fs_truncate12_mid, FatType::Fat12, 2, true, 3);
fs_free_case!(fs_truncate12_tail, FatType::Fat12, 0, true, 5);
fs_free_case!(fs_free16_chain, FatType::Fat16, 0, false, 2);
fs_free_case!(fs_free16_single, FatType::Fat16, 1, false, 4);
fs_free_case!(fs_truncate16_head, FatType::Fat16, 0, true, 2);
fs_free_case!(fs_truncate16_mid, FatType::Fat16, 2, true, 3);
fs_free_case!(fs_truncate16_tail, FatType::Fat16, 0, true, 5);
fs_free_case!(fs_free32_chain, FatType::Fat32, 0, false, 2);
fs_free_case!(fs_free32_single, FatType::Fat32, 1, false, 4);
fs_free_case!(fs_truncate32_head, FatType::Fat32, 0, true, 2);
fs_free_case!(fs_truncate32_mid, FatType::Fat32, 2, true, 3);
fs_free_case!(fs_truncate32_tail, FatType::Fat32, 0, true, 5);

/// C05/C13: stats() returns the cached count when present (no device access at all); otherwise it recounts from the
/// table (equal to the number of zero entries), caches it, and writes nothing (glue level, see fs_alloc*).
fn stats_check(ft: FatType, variant: u8) {
    let total: u32 = 6;
    let g = Geo::small(ft, total);
    let mut dev = win_for(&g);
    dev.fat0 = sample_table(ft, variant);
    dev.fat1 = dev.fat0;
    let old = dev.fat0;
    let has_count: bool = kani::any();
    let cached_val: u32 = kani::any();
    kani::assume(cached_val <= total);
    let was_dirty: bool = kani::any();
    let info = FsInfoSector { free_cluster_count: if has_count { Some(cached_val) } else { None }, next_free_cluster: None, dirty: was_dirty };
    let fs = core::mem::ManuallyDrop::new(mk_fs(dev, &g, crate::time::NullTimeProvider::new(), false, info, FsStatusFlags::decode(0)));
    let st = match fs.stats() { Ok(s) => s, Err(_) => { assert!(false); return; } };
    let d = fs.disk.borrow();
    assert!(!d.oob && d.total_writes == 0 && d.flushes == 0);
    assert!(st.total_clusters() == total && st.cluster_size() == 512);
    if has_count {
        assert!(st.free_clusters() == cached_val);
        assert!(fs.fs_info.borrow().dirty == was_dirty);
    } else {
        assert!(st.free_clusters() == spec::count_free(w(ft), &old, total + 2));
        assert!(fs.fs_info.borrow().free_cluster_count == Some(st.free_clusters()));
    }
    assert!(!fs.current_status_flags.get().dirty);
    kani::cover!(!has_count);
    kani::cover!(has_count);
}

macro_rules! stats_case {
    ($name:ident, $ft:expr, $variant:expr) => {
        #[kani::proof]
        #[kani::unwind(40)]
        fn $name() { stats_check($ft, $variant); }
    };
}
stats_case!(stats12_some_free, FatType::Fat12, 0);
stats_case!(stats12_full, FatType::Fat12, 2);
stats_case!(stats16_some_free, FatType::Fat16, 1);
stats_case!(stats16_full, FatType::Fat16, 2);
stats_case!(stats32_some_free, FatType::Fat32, 0);
stats_case!(stats32_full, FatType::Fat32, 2);

/// C05/C04/C11/C13: flush_fs_info writes the cached counters to sector fs_info_sector of a FAT32 volume exactly
/// when they are dirty (512 bytes at fs_info_sector*bps and nothing else), never on FAT12/16, and clears the latch.
#[kani::proof]
#[kani::unwind(8)]
fn fsinfo_flush_region() {
    let ft = any_ft();
    let mut g = Geo::small(ft, 6);
    let bps_sel: bool = kani::any();
    g.bps = if bps_sel { 512 } else { 4096 };
    g.fs_info_sector = kani::any();
    if ft == FatType::Fat32 { kani::assume(g.fs_info_sector >= 1 && g.fs_info_sector < g.reserved); }
    let info = any_fs_info(6);
    let (free, next, dirty) = (info.free_cluster_count, info.next_free_cluster, info.dirty);
    let mut dev = LogDev::new(g.limit());
    let base = g.fs_info_sector as u64 * g.bps as u64;
    dev.watch_addr = kani::any();
    kani::assume(dev.watch_addr >= base + 488 && dev.watch_addr < base + 496);
    let wa = dev.watch_addr;
    dev.watch_val = kani::any();
    let wv0 = dev.watch_val;
    let fs = core::mem::ManuallyDrop::new(mk_fs(dev, &g, crate::time::NullTimeProvider::new(), false, info, FsStatusFlags::decode(0)));
    assert!(fs.flush_fs_info().is_ok());
    let d = fs.disk.borrow();
    if ft == FatType::Fat32 && dirty {
        assert!(!d.overflow && d.nw == 7);
        assert!(d.w_off[0] == base && d.w_off[6] + d.w_len[6] == base + 512 && d.max_end == base + 512);
        let words = [free.unwrap_or(0xFFFF_FFFF), next.unwrap_or(0xFFFF_FFFF)];
        let idx = (wa - (base + 488)) as usize;
        assert!(d.watch_val == words[idx / 4].to_le_bytes()[idx % 4]);
        assert!(!fs.fs_info.borrow().dirty);
    } else {
        assert!(d.nw == 0 && d.watch_val == wv0);
        assert!(fs.fs_info.borrow().dirty == dirty);
    }
    kani::cover!(ft == FatType::Fat32 && dirty && free.is_none());
    kani::cover!(ft == FatType::Fat16 && dirty);
}

/// C13: from a state where nothing is pending (FS-info clean, status byte as at mount) unmount writes nothing and
/// keeps that state; with only the FS-info cache dirty on FAT32 it writes just that sector.
#[kani::proof]
#[kani::unwind(8)]
fn unmount_readonly_session_writes_nothing() {
    let ft = any_ft();
    let mut g = Geo::small(ft, 6);
    g.status = kani::any();
    let mut info = any_fs_info(6);
    info.dirty = false;
    let fs = core::mem::ManuallyDrop::new(mk_fs(LogDev::new(g.limit()), &g, crate::time::NullTimeProvider::new(), false, info, FsStatusFlags::decode(g.status)));
    assert!(fs.unmount_internal().is_ok());
    let d = fs.disk.borrow();
    assert!(d.total_writes == 0);
    assert!(fs.current_status_flags.get() == FsStatusFlags::decode(g.status));
    kani::cover!(g.status & 1 == 1);
}

/// must-fail twin: claims unmount never writes even after a modification.
#[kani::proof]
#[kani::unwind(8)]
fn twin_unmount_never_writes() {
    let g = Geo::small(FatType::Fat16, 6);
    let fs = core::mem::ManuallyDrop::new(mk_fs(LogDev::new(g.limit()), &g, crate::time::NullTimeProvider::new(), false, FsInfoSector::default(),
                                                FsStatusFlags { dirty: true, io_error: false }));
    let _ = fs.unmount_internal();
    assert!(fs.disk.borrow().total_writes == 0);
}

// ------------------------------------------------------------------------------------------- offsets (C11, C20)

/// C11/C20: FileSystem::offset_from_cluster equals the u64 reference for every cluster of every accepted geometry
/// and the whole cluster lies inside the volume.
#[kani::proof]
#[kani::unwind(4)]
fn fs_offset_from_cluster() {
    let bpb = crate::boot_sector::verif::any_bpb();
    kani::assume(crate::boot_sector::verif::bpb_is_valid(&bpb));
    let fs = core::mem::ManuallyDrop::new(FileSystem {
        disk: RefCell::new(LogDev::new(u64::MAX)),
        options: FsOptions { update_accessed_date: false, oem_cp_converter: LossyOemCpConverter::new(), time_provider: crate::time::NullTimeProvider::new(), strict: true },
        fat_type: FatType::from_clusters(bpb.total_clusters()),
        first_data_sector: bpb.first_data_sector(),
        root_dir_sectors: bpb.root_dir_sectors(),
        total_clusters: bpb.total_clusters(),
        bpb: bpb.clone(),
        fs_info: RefCell::new(FsInfoSector::default()),
        current_status_flags: Cell::new(FsStatusFlags::decode(0)),
    });
    let c: u32 = kani::any();
    kani::assume(c >= 2 && c - 2 < fs.total_clusters);
    let off = fs.offset_from_cluster(c);
    let g = spec::geo(bpb.bytes_per_sector, bpb.sectors_per_cluster, bpb.reserved_sectors, bpb.fats, bpb.root_entries,
                      bpb.total_sectors_16, bpb.total_sectors_32, bpb.sectors_per_fat_16, bpb.sectors_per_fat_32);
    assert!(off == (g.first_data + (c as u64 - 2) * g.spc) * g.bps);
    assert!(off + fs.cluster_size() as u64 <= g.total * g.bps);
    assert!(fs.bytes_from_clusters(c - 2) == (c as u64 - 2) * g.spc * g.bps);
    kani::cover!(off >= (1u64 << 40));
    kani::cover!(c - 2 == fs.total_clusters - 1 && off > (1u64 << 32));
}


// ------------------------------------------------------------------------------------------- single faults at FileSystem level (C09)

fn fault_dev(ft: FatType, variant: u8, fault_at: u32) -> (Geo, crate::verif_support::dev::Faulty<WinDev>) {
    let g = Geo::small(ft, 6);
    let mut dev = win_for(&g);
    dev.fat0 = sample_table(ft, variant);
    dev.fat1 = dev.fat0;
    (g, crate::verif_support::dev::Faulty::new(dev, fault_at, 120))
}

use crate::verif_support::dev::FAULT;

fn is_fault<T>(r: &Result<T, Error<crate::verif_support::dev::Tok>>) -> bool {
    matches!(r, Err(Error::Io(t)) if *t == FAULT)
}

/// op: 0 alloc(zero) 1 free chain 2 truncate chain 3 stats (recount) 4 read_status_flags 5 flush_fs_info (FAT32)
/// 6 unmount 7 set_dirty_flag
fn fault_fs_check(ft: FatType, op: u8) {
    let fault_at: u32 = kani::any();
    let (g, dev) = fault_dev(ft, 0, fault_at);
    let mut info = FsInfoSector::default();
    if op == 5 || op == 6 { info.dirty = true; info.free_cluster_count = Some(2); }
    let cur = if op == 6 { FsStatusFlags { dirty: true, io_error: false } } else { FsStatusFlags::decode(0) };
    let fs = core::mem::ManuallyDrop::new(mk_fs(dev, &g, crate::time::NullTimeProvider::new(), false, info, cur));
    let (fault, ok) = match op {
        0 => { let r = fs.alloc_cluster(Some(5), true); (is_fault(&r), matches!(r, Ok(6))) }
        1 => { let r = fs.free_cluster_chain(2); (is_fault(&r), r.is_ok()) }
        2 => { let r = fs.truncate_cluster_chain(2); (is_fault(&r), r.is_ok()) }
        3 => { let r = fs.stats(); (is_fault(&r), matches!(r, Ok(s) if s.free_clusters() == 2)) }
        4 => { let r = fs.read_status_flags(); (is_fault(&r), r.is_ok()) }
        5 => { let r = fs.flush_fs_info(); (is_fault(&r), r.is_ok()) }
        6 => { let r = fs.unmount_internal(); (is_fault(&r), r.is_ok()) }
        _ => { let r = fs.set_dirty_flag(true); (matches!(r, Err(t) if t == FAULT), r.is_ok()) }
    };
    let d = fs.disk.borrow();
    assert!(!d.inner.oob);
    // the fault surfaces as the I/O variant carrying the device's error; without a fault the call succeeds
    if d.fired { assert!(fault); } else { assert!(ok); }
    // C12: the cached "last status byte written" follows the device: a status update that failed is not remembered as
    // done (otherwise every later update would be skipped and the volume would stay clean on disk while being modified)
    if op == 7 && d.fired { assert!(fs.current_status_flags.get() == cur); }
    kani::cover!(d.fired && fault_at >= 1);
    kani::cover!(!d.fired);
}
macro_rules! fault_fs_case {
    ($name:ident, $ft:expr, $op:expr) => {
        #[kani::proof]
        #[kani::unwind(130)]
        fn $name() { fault_fs_check($ft, $op); }
    };
}
/// C09: a single device fault at ANY call position during a FileSystem-level operation is returned as
/// Error::Io(device error); never swallowed, converted, a panic or an endless loop (call budget 120).
fault_fs_case!(fault_fs_alloc12, FatType::Fat12, 0);
fault_fs_case!(fault_fs_alloc32, FatType::Fat32, 0);
fault_fs_case!(fault_fs_free16, FatType::Fat16, 1);
fault_fs_case!(fault_fs_truncate12, FatType::Fat12, 2);
fault_fs_case!(fault_fs_truncate32, FatType::Fat32, 2);
fault_fs_case!(fault_fs_stats16, FatType::Fat16, 3);
fault_fs_case!(fault_fs_status_flags32, FatType::Fat32, 4);
fault_fs_case!(fault_fs_flush_info32, FatType::Fat32, 5);
fault_fs_case!(fault_fs_unmount32, FatType::Fat32, 6);
fault_fs_case!(fault_fs_unmount16, FatType::Fat16, 6);
fault_fs_case!(fault_fs_set_dirty12, FatType::Fat12, 7);

/// must-fail twin: claims FileSystem::alloc_cluster succeeds whatever the fault position.
#[kani::proof]
#[kani::unwind(130)]
fn twin_fault_fs_alloc_always_ok() {
    let fault_at: u32 = kani::any();
    let (g, dev) = fault_dev(FatType::Fat16, 0, fault_at);
    let fs = core::mem::ManuallyDrop::new(mk_fs(dev, &g, crate::time::NullTimeProvider::new(), false, FsInfoSector::default(), FsStatusFlags::decode(0)));
    assert!(fs.alloc_cluster(None, false).is_ok());
}

// ------------------------------------------------------------------------------------------- mount options (C13, C18)

/// C13/C18: the option builders set exactly the option they name, in any order: access-date updating is OFF unless
/// requested (the default a read-only session relies on), `strict` does not touch it and vice versa, and swapping the
/// clock or the code-page converter keeps both.
#[kani::proof]
fn fs_options_builders() {
    let d = FsOptions::new();
    assert!(!d.update_accessed_date && d.strict);
    let s: bool = kani::any();
    let u: bool = kani::any();
    let a = FsOptions::new().strict(s);
    assert!(a.strict == s && !a.update_accessed_date);
    let b = FsOptions::new().update_accessed_date(u).strict(s);
    assert!(b.strict == s && b.update_accessed_date == u);
    let c = FsOptions::new().strict(s).update_accessed_date(u);
    assert!(c.strict == s && c.update_accessed_date == u);
    let e = FsOptions::new().strict(s).update_accessed_date(u).time_provider(crate::time::NullTimeProvider::new())
        .oem_cp_converter(LossyOemCpConverter::new());
    assert!(e.strict == s && e.update_accessed_date == u);
}

// ------------------------------------------------------------------------------------------- format_volume I/O (C06, C11)

/// C06/C11: `format_volume` on a 373-sector device (FAT12, 338 clusters, two FAT copies; the size is chosen so that the
/// table has a single padding entry - the padding loop is input-proportional and decided by `format_fat*`) that is full of stale garbage: EVERY byte of
/// the metadata area - boot sector, both FAT copies, the whole root directory region - is written (one arbitrary
/// watched address tracks it), nothing is written at or behind the first data sector's end of the volume, and the
/// watched byte ends up with the value the specification prescribes where that is fixed: zero anywhere in the root
/// directory, zero in the free part of either FAT copy, the media/end-of-chain pattern in the first three FAT bytes,
/// 0x55 0xAA at the end of the boot sector.
#[kani::proof]
#[kani::unwind(520)]
fn format_volume_regions12() {
    let total_sectors: u32 = 373;
    let mut dev = LogDev::new(u64::from(total_sectors) * 512);
    // geometry of the default layout for 64 sectors (checked below against what was actually formatted)
    let (reserved, spf, fats, root_sectors) = (1u64, 1u64, 2u64, 32u64);
    let meta_end = (reserved + fats * spf + root_sectors) * 512;
    let w: u64 = kani::any();
    kani::assume(w < meta_end);
    dev.watch_addr = w;
    dev.watch_val = 0xD1;
    let r = format_volume(&mut dev, FormatVolumeOptions::new().total_sectors(total_sectors));
    assert!(r.is_ok());
    assert!(dev.watch_hit);                                   // no stale byte survives in the metadata area
    assert!(dev.max_end <= u64::from(total_sectors) * 512);   // nothing behind the volume
    let fat0 = reserved * 512;
    let root = (reserved + fats * spf) * 512;
    if w >= root { assert!(dev.watch_val == 0); }
    if w >= fat0 && w < root {
        let o = (w - fat0) % (spf * 512);
        if o == 0 { assert!(dev.watch_val == 0xF8); }
        if o == 1 || o == 2 { assert!(dev.watch_val == 0xFF); }
        if o >= 3 && o < 40 { assert!(dev.watch_val == 0); }   // entries 2..26 of a volume with > 26 clusters: free
    }
    if w == 510 { assert!(dev.watch_val == 0x55); }
    if w == 511 { assert!(dev.watch_val == 0xAA); }
    if w == 11 { assert!(dev.watch_val == 0x00); }             // bytes per sector = 512 (little endian)
    if w == 12 { assert!(dev.watch_val == 0x02); }
    if w == 14 { assert!(dev.watch_val == reserved as u8); }
    if w == 16 { assert!(dev.watch_val == fats as u8); }
    if w == 22 { assert!(dev.watch_val == spf as u8); }
    if w == 17 { assert!(dev.watch_val == 0x00); }             // 512 root entries = 0x0200
    if w == 18 { assert!(dev.watch_val == 0x02); }
    if w == 13 { assert!(dev.watch_val == 1); }                // one sector per cluster
    if w == 19 { assert!(dev.watch_val == (total_sectors & 0xFF) as u8); }
    if w == 20 { assert!(dev.watch_val == (total_sectors >> 8) as u8); }
    kani::cover!(w >= fat0 + 512 + 100 && w < root);           // inside the second FAT copy
    kani::cover!(w >= root + 8000);
}
