// Dir-level step harnesses (C01/C03/C09/C13/C15). Included as `crate::dir::verif::ops` under cfg(kani).
// One namespace operation on a directly constructed FileSystem over the windowed device: the fixed root directory
// of a FAT12/16 volume is a real 4-slot window, the FAT a real 32-byte window.
use super::super::*;
use crate::dir_entry::DirEntryData;
use crate::fs::verif::{mk_fs_plain, sample_table, Fs, Geo};
use crate::fs::FatType;
use crate::time::NullTimeProvider;
use crate::verif_support::dev::{WinDev, DIRW, FATW};
use core::mem::ManuallyDrop;

fn geo() -> Geo { Geo::small(FatType::Fat12, 6) }

fn mk_dev(dir: [u8; DIRW]) -> WinDev {
    let g = geo();
    let mut dev = crate::fs::verif::win_for(&g);
    dev.fat0 = sample_table(FatType::Fat12, 0);
    dev.fat1 = dev.fat0;
    dev.dir = dir;
    dev
}

/// 32-byte short entry with the given 11-byte name, attributes and first cluster.
fn sfn_slot(name: &[u8; 11], attrs: u8, cluster: u16, size: u32) -> [u8; 32] {
    let mut s = [0u8; 32];
    let mut i = 0;
    while i < 11 { s[i] = name[i]; i += 1; }
    s[11] = attrs;
    s[26] = cluster as u8; s[27] = (cluster >> 8) as u8;
    s[28] = size as u8; s[29] = (size >> 8) as u8; s[30] = (size >> 16) as u8; s[31] = (size >> 24) as u8;
    s
}

fn put(dir: &mut [u8; DIRW], slot: usize, e: &[u8; 32]) {
    dir[slot * 32..slot * 32 + 32].copy_from_slice(e);
}

#[kani::proof]
#[kani::unwind(13)]
#[kani::stub(core::slice::memchr::memchr, crate::verif_support::stubs::memchr)]
#[kani::stub(core::slice::memchr::memrchr, crate::verif_support::stubs::memrchr)]
fn probe_create_file_empty_root() {
    let g = geo();
    let dev = mk_dev([0u8; DIRW]);
    let fs = ManuallyDrop::new(mk_fs_plain(dev, &g, NullTimeProvider::new(), false));
    let root = ManuallyDrop::new(fs.root_dir());
    let r = root.create_file("A");
    assert!(r.is_ok());
    let f = ManuallyDrop::new(r);
    let d = fs.disk.borrow();
    assert!(!d.oob);
    assert!(d.dir[0] == b'A');
    assert!(d.dir[1] == b' ');
    assert!(d.dir[11] == 0);
    assert!(d.dir[32] == 0);
}

// ------------------------------------------------------------------------------------------- slot allocation (C01, C03, C05)

#[derive(Clone, Copy, PartialEq, Eq)]
enum Kind { End, Deleted, Used }

fn kind_of(dir: &[u8; DIRW], slot: usize) -> Kind {
    if slot >= DIRW / 32 { return Kind::End; } // behind the window the device reads as zero = end marker
    match dir[slot * 32] { 0x00 => Kind::End, 0xE5 => Kind::Deleted, _ => Kind::Used }
}

/// C01/C03/C05: `Dir::find_free_entries(n)` on a fixed root directory whose first four slots are ARBITRARY bytes
/// (any mix of used, deleted, long-name and end-marker slots). The position returned, r, must be such that
///   (a) no slot in [r, r+n) in front of the end marker is a used slot (nothing live is overwritten),
///   (b) r is not behind the end marker, and every slot in [r, end marker) is deleted (no gap is left, nothing follows the end),
///   (c) it is the FIRST position (in scan order) that starts a run of n deleted slots or the deleted run in front of the
///       end marker: an exact-fit run of deleted slots is reused, so out-of-space is reported only when no run remains.
/// No write is issued.
fn find_free_entries_check<const FULL: bool>() {
    let g = geo();
    let dir: [u8; DIRW] = if FULL { kani::any() } else { sparse_dir() };
    let dev = mk_dev(dir);
    let fs = ManuallyDrop::new(mk_fs_plain(dev, &g, NullTimeProvider::new(), false));
    let root = ManuallyDrop::new(fs.root_dir());
    let n: u32 = kani::any();
    kani::assume(n >= 1 && n <= 3);
    let r = root.find_free_entries(n);
    let stream = match r { Ok(s) => ManuallyDrop::new(s), Err(_) => { assert!(false); return; } };
    // (read the position through abs_pos(): a `seek(Current(0))` on the returned enum makes CBMC explore the
    // cluster-chain walk of the File-backed variant as well - the variant tag lives in a niche of the payload)
    let pos = match stream.abs_pos() { Some(p) => p - g.root_base(), None => { assert!(false); return; } };
    assert!(pos % 32 == 0);
    let r = (pos / 32) as usize;
    // independent scan
    let mut e = 0; // index of the end marker
    while e < 4 && kind_of(&dir, e) != Kind::End { e += 1; }
    assert!(r <= e);                                                    // (b)
    let mut i = r;
    while i < e && (i as u32) < r as u32 + n { assert!(kind_of(&dir, i) == Kind::Deleted); i += 1; } // (a): the slots handed out in front of the end marker are deleted
    // ... is deleted if it lies inside the run being handed out; if the run ends before the end marker, it is n long
    let mut run = 0;
    let mut j = r;
    while j < e && kind_of(&dir, j) == Kind::Deleted { run += 1; j += 1; }
    assert!(j == e || run as u32 >= n);
    // (c) first fit: r starts a maximal run, and no earlier run of deleted slots has length >= n
    assert!(r == 0 || kind_of(&dir, r - 1) == Kind::Used);
    let mut s = 0;
    let mut cur = 0u32;
    while s < r {
        if kind_of(&dir, s) == Kind::Deleted { cur += 1; assert!(cur < n); } else { cur = 0; }
        s += 1;
    }
    let d = fs.disk.borrow();
    assert!(d.total_writes == 0 && !d.oob);
    kani::cover!(r == 1 && e == 4);            // exact-fit hole in the middle of a full window
    kani::cover!(r == 2 && e == 3 && n == 2);  // deleted run in front of the end marker, shorter than n
    kani::cover!(r == e && e == 4);            // appended behind four used slots
    kani::cover!(r == 2 && n == 2 && kind_of(&dir, 0) == Kind::Deleted && kind_of(&dir, 1) == Kind::Used); // too-short hole skipped
}

/// The bytes that decide a slot's kind (first byte, attribute byte) are arbitrary, the others zero.
fn sparse_dir() -> [u8; DIRW] {
    let mut dir = [0u8; DIRW];
    dir[0] = kani::any(); dir[11] = kani::any();
    dir[32] = kani::any(); dir[43] = kani::any();
    dir[64] = kani::any(); dir[75] = kani::any();
    dir[96] = kani::any(); dir[107] = kani::any();
    dir
}
#[kani::proof]
#[kani::unwind(13)]
fn find_free_entries_spec() { find_free_entries_check::<false>(); }
#[kani::proof]
#[kani::unwind(13)]
fn find_free_entries_spec_all_bytes() { find_free_entries_check::<true>(); }

// ------------------------------------------------------------------------------------------- directory iteration (C08, C13, C17)

/// Specification-side classification of a raw slot: 0 end marker, 1 deleted, 2 long-name slot, 3 volume label, 4 entry.
fn slot_class(dir: &[u8; DIRW], k: usize) -> u8 {
    if k >= DIRW / 32 { return 0; }
    let b0 = dir[k * 32];
    let a = dir[k * 32 + 11];
    if b0 == 0 { 0 } else if b0 == 0xE5 { 1 } else if a & 0x0F == 0x0F { 2 } else if a & 0x08 != 0 { 3 } else { 4 }
}

/// Is [s, k) a well-formed long-name run for the short entry in slot k (FAT specification: orders n|0x40, n-1, ..., 1,
/// every checksum = checksum of the short name)?
#[cfg(feature = "lfn")]
fn run_well_formed(dir: &[u8; DIRW], s: usize, k: usize) -> bool {
    if s >= k { return false; }
    let mut sfn = [0u8; 11];
    let mut i = 0;
    while i < 11 { sfn[i] = dir[k * 32 + i]; i += 1; }
    let sum = crate::verif_support::spec::lfn_checksum(&sfn);
    let n = k - s;
    let mut j = s;
    while j < k {
        let ord = dir[j * 32];
        let want = (k - j) as u8 | if j == s { 0x40 } else { 0 };
        if ord != want || dir[j * 32 + 13] != sum { return false; }
        j += 1;
    }
    n >= 1
}

/// C08/C13/C17 (one step, induction over the iteration): ONE `DirIter::next()` from a stream positioned at slot S of a
/// fixed root directory whose four slots are ARBITRARY bytes (behind them the region reads as zero). The call is
/// independent of earlier calls except for the stream position (the long-name builder is local to it), so deciding
/// every S covers whole listings. It terminates, never panics, never writes, and returns exactly the first slot at or
/// behind S that the specification calls an entry (None if the end marker comes first), with its own storage position
/// and a slot range that starts right behind the last deleted slot / label (so that removing the entry removes exactly
/// its own long-name slots). With long names enabled, a long name is attached iff the slots directly in front of the
/// entry form a well-formed run for THIS entry; otherwise the short name is the fallback (no partial or foreign long
/// name, e.g. from a run that belonged to a deleted entry).
fn diriter_step<const S: usize>(restrict_orders: bool) {
    let g = geo();
    let dir: [u8; DIRW] = kani::any();
    let mut i = S;
    if restrict_orders {
        // keep long-name orders small (the builder's buffer is sized by the order value): 0..=3 with or without the flag
        while i < DIRW / 32 { if slot_class(&dir, i) == 2 { kani::assume(dir[i * 32] & 0x1F <= 3 && dir[i * 32] & 0xA0 == 0); } i += 1; }
    }
    let dev = mk_dev(dir);
    let fs = ManuallyDrop::new(mk_fs_plain(dev, &g, NullTimeProvider::new(), false));
    let root = ManuallyDrop::new(fs.root_dir());
    let mut stream = ManuallyDrop::new(root.stream.clone());
    if stream.seek(SeekFrom::Start(S as u64 * 32)).is_err() { assert!(false); return; }
    let mut it = ManuallyDrop::new(DirIter::new(ManuallyDrop::into_inner(stream), &*fs, true));
    // specification side: first entry slot at or behind S, in front of the end marker
    let mut k = S;
    let mut start = S;
    let mut found = false;
    while k < DIRW / 32 {
        let c = slot_class(&dir, k);
        if c == 0 { break; }
        if c == 4 { found = true; break; }
        if c != 2 { start = k + 1; }
        k += 1;
    }
    match it.next() {
        None => assert!(!found),
        Some(Err(_)) => assert!(false),
        Some(Ok(e)) => {
            let e = ManuallyDrop::new(e);
            assert!(found);
            assert!(e.entry_pos == g.root_base() + k as u64 * 32);
            assert!(e.offset_range.0 == start as u64 * 32 && e.offset_range.1 == (k as u64 + 1) * 32);
            assert!(e.data.name()[0] == dir[k * 32] && e.data.name()[10] == dir[k * 32 + 10]);
            #[cfg(feature = "lfn")]
            {
                let has_long = e.long_file_name_as_ucs2_units().is_some();
                // the run of this entry starts at the LAST slot in front of it that carries the 0x40 flag; long-name slots
                // in front of that one are orphans (ignored, but inside the slot range so that a remove cleans them up)
                let mut run = k;
                let mut j = start;
                while j < k { if dir[j * 32] & 0x40 != 0 { run = j; } j += 1; }
                // (a well-formed run whose units are all padding/terminators decodes to an empty name: also a fallback)
                if !run_well_formed(&dir, run, k) { assert!(!has_long); }
                else {
                    let len = e.lfn_utf16.len();
                    assert!(len <= (k - run) * 13);
                    if len > 0 {
                        // first unit of the name = first unit of the slot with order 1, i.e. slot k-1
                        let u0 = (dir[(k - 1) * 32 + 1] as u16) | ((dir[(k - 1) * 32 + 2] as u16) << 8);
                        assert!(e.lfn_utf16.as_ucs2_units()[0] == u0);
                    }
                    if S <= 2 { kani::cover!(len == 13 && k - run == 1); }
                    if S <= 1 { kani::cover!(run > start); }                              // orphan slot in front of the run
                    if S <= 2 { kani::cover!(S > 0 || (start > 0 && slot_class(&dir, start - 1) == 1)); } // run directly behind a deleted slot
                }
                if S <= 2 { kani::cover!(!has_long && start < k); }                    // broken run: fallback
                kani::cover!(S > 1 || (!has_long && start == k && k >= S + 2 && slot_class(&dir, k - 1) != 2 && slot_class(&dir, k - 2) == 2)); // run cut off by a skipped slot
            }
            kani::cover!(k == 3);
        }
    }
    let d = fs.disk.borrow();
    assert!(d.total_writes == 0 && !d.oob);
    kani::cover!(!found && k == DIRW / 32);
}

macro_rules! diriter_case {
    ($name:ident, $lfn_name:ident, $s:expr) => {
        #[cfg(not(feature = "lfn"))]
        #[kani::proof]
        #[kani::unwind(13)]
        fn $name() { diriter_step::<$s>(false); }
        #[cfg(all(feature = "lfn", not(feature = "alloc")))]
        #[kani::proof]
        #[kani::unwind(264)]
        fn $lfn_name() { diriter_step::<$s>(true); }
    };
}
diriter_case!(diriter_step_from0, diriter_step_lfn_from0, 0);
diriter_case!(diriter_step_from1, diriter_step_lfn_from1, 1);
diriter_case!(diriter_step_from2, diriter_step_lfn_from2, 2);
diriter_case!(diriter_step_from3, diriter_step_lfn_from3, 3);

#[kani::proof]
#[kani::unwind(13)]
fn probe_ffe_sparse() {
    let g = geo();
    let mut dir = [0u8; DIRW];
    dir[0] = kani::any(); dir[11] = kani::any();
    dir[32] = kani::any(); dir[43] = kani::any();
    dir[64] = kani::any(); dir[75] = kani::any();
    dir[96] = kani::any(); dir[107] = kani::any();
    let dev = mk_dev(dir);
    let fs = ManuallyDrop::new(mk_fs_plain(dev, &g, NullTimeProvider::new(), false));
    let root = ManuallyDrop::new(fs.root_dir());
    let n: u32 = kani::any();
    kani::assume(n >= 1 && n <= 3);
    let r = root.find_free_entries(n);
    assert!(r.is_ok());
    core::mem::forget(r);
}

// ------------------------------------------------------------------------------------------- namespace operations (C01, C03, C05, C12, C15)
// 8.3 build (`std` only), concrete names, a populated fixed root: slot 0 = file "A" owning the chain 2->3->5, slot 1 =
// file "B" owning cluster 4, slot 2 = end marker; clusters 6 and 7 free. Entry bodies (attributes other than
// directory/label, timestamps) are symbolic.

fn populated_dir() -> [u8; DIRW] {
    let mut dir = [0u8; DIRW];
    let mut a = [b' '; 11]; a[0] = b'A';
    let mut b = [b' '; 11]; b[0] = b'B';
    let mut sa = sfn_slot(&a, 0x20, 2, 1100);
    let mut sb = sfn_slot(&b, 0x20, 4, 7);
    // symbolic timestamps / case byte
    let ta: [u8; 10] = kani::any();
    let mut i = 0;
    while i < 10 { sa[12 + i] = ta[i]; sb[12 + i] = ta[9 - i]; i += 1; }
    sa[20] = 0; sa[21] = 0; sb[20] = 0; sb[21] = 0; // high cluster word is zero on FAT12
    put(&mut dir, 0, &sa);
    put(&mut dir, 1, &sb);
    dir
}

/// Bytes [from, 32) of the slot are equal in both windows: checked at ONE arbitrary index (no comparison loop to unwind).
fn same_slot(a: &[u8; DIRW], b: &[u8; DIRW], slot: usize, from: usize) -> bool {
    let i: usize = kani::any();
    kani::assume(i >= from && i < 32);
    a[slot * 32 + i] == b[slot * 32 + i]
}

/// STUB for `ShortNameGenerator::new` in the namespace steps, valid for the names they use (exactly one ASCII byte,
/// no dot): the 8.3 image is that byte upper-cased if it is legal in a short name and '_' (lossy) otherwise. The real
/// constructor (extension search with `rfind`, per-character mapping, hash) is decided on its own - `sng_new_total`,
/// `copy_short_name_part_spec`, `alias_*` - and costs > 30 min / 8 GB per namespace step because std's string searchers
/// do not constant-fold.
#[allow(dead_code)]
fn stub_sng_new(name: &str) -> ShortNameGenerator {
    let b = name.as_bytes();
    assert!(b.len() == 1 && b[0] < 0x80 && b[0] != b'.' && b[0] != b' ');   // domain of the stub
    let c = b[0];
    let legal = c.is_ascii_alphanumeric() || matches!(c, b'!' | b'#' | b'$' | b'%' | b'&' | b'\'' | b'(' | b')' | b'-' | b'@' | b'^' | b'_' | b'`' | b'{' | b'}' | b'~');
    let mut short_name = [SFN_PADDING; SFN_SIZE];
    short_name[0] = if legal { c.to_ascii_uppercase() } else { b'_' };
    ShortNameGenerator { chksum: u16::from(c), name_fits: true, lossy_conv: !legal, basename_len: 1, short_name, ..ShortNameGenerator::default() }
}

macro_rules! stubbed_proof {
    ($(#[$m:meta])* fn $name:ident() $body:block) => {
        $(#[$m])*
        #[cfg(not(feature = "lfn"))]
        #[kani::proof]
        #[kani::unwind(13)]
        #[kani::stub(core::slice::memchr::memchr, crate::verif_support::stubs::memchr)]
        #[kani::stub(core::slice::memchr::memrchr, crate::verif_support::stubs::memrchr)]
        #[kani::stub(crate::dir_entry::ShortName::eq_ignore_case, crate::dir_entry::verif::stub_eq_ignore_case)]
        #[kani::stub(crate::dir::ShortNameGenerator::new, crate::dir::verif::ops::stub_sng_new)]
        fn $name() $body
    };
}

stubbed_proof! {
/// C01/C03/C05/C12: `remove("a")` (matches "A" ignoring case): Ok; exactly the first byte of A's slot becomes 0xE5,
/// B's slot and the end marker are untouched; A's clusters 2,3,5 are free in both FAT copies, B's cluster 4 and the
/// reserved entries are unchanged; the dirty bit was written.
fn remove_file_step() {
    let g = geo();
    let dir = populated_dir();
    let dev = mk_dev(dir);
    let fat = dev.fat0;
    let fs = ManuallyDrop::new(mk_fs_plain(dev, &g, NullTimeProvider::new(), false));
    let root = ManuallyDrop::new(fs.root_dir());
    let r = root.remove("a");
    assert!(r.is_ok());
    let d = fs.disk.borrow();
    assert!(!d.oob);
    assert!(d.dir[0] == 0xE5 && same_slot(&d.dir, &dir, 0, 1));
    assert!(same_slot(&d.dir, &dir, 1, 0) && same_slot(&d.dir, &dir, 2, 0) && same_slot(&d.dir, &dir, 3, 0));
    let w = 0u8; // FAT12
    use crate::verif_support::spec;
    assert!(spec::raw(w, &d.fat0, 2) == 0 && spec::raw(w, &d.fat0, 3) == 0 && spec::raw(w, &d.fat0, 5) == 0);
    assert!(spec::raw(w, &d.fat0, 4) == spec::raw(w, &fat, 4) && spec::raw(w, &d.fat0, 0) == spec::raw(w, &fat, 0)
        && spec::raw(w, &d.fat0, 1) == spec::raw(w, &fat, 1) && spec::raw(w, &d.fat0, 6) == 0 && spec::raw(w, &d.fat0, 7) == 0);
    let i: usize = kani::any();
    kani::assume(i < FATW);
    assert!(d.fat0[i] == d.fat1[i]);
    // status byte written (dirty) before anything else
    assert!(d.nw >= 1 && d.w_off[0] == 0x25 && d.w_len[0] == 1 && d.w_first[0] & 1 == 1);
}
}

stubbed_proof! {
/// C01: removing a name that does not exist fails with NotFound and writes nothing.
fn remove_missing_step() {
    let g = geo();
    let dir = populated_dir();
    let dev = mk_dev(dir);
    let fs = ManuallyDrop::new(mk_fs_plain(dev, &g, NullTimeProvider::new(), false));
    let root = ManuallyDrop::new(fs.root_dir());
    let r = root.remove("C");
    assert!(matches!(r, Err(Error::NotFound)));
    let d = fs.disk.borrow();
    assert!(d.total_writes == 0 && !d.oob);
}
}

stubbed_proof! {
/// C01/C15: renaming to a name that is not acceptable fails with the unsupported-character error and has NO side
/// effect: the source entry is still there, nothing was written.
fn rename_invalid_name_no_side_effect() {
    let g = geo();
    let dir = populated_dir();
    let dev = mk_dev(dir);
    let fs = ManuallyDrop::new(mk_fs_plain(dev, &g, NullTimeProvider::new(), false));
    let root = ManuallyDrop::new(fs.root_dir());
    let r = root.rename_internal("A", &root, ":");
    assert!(matches!(r, Err(Error::UnsupportedFileNameCharacter)));
    let d = fs.disk.borrow();
    assert!(!d.oob);
    assert!(same_slot(&d.dir, &dir, 0, 0) && same_slot(&d.dir, &dir, 1, 0));
    assert!(d.total_writes == 0);
}
}

stubbed_proof! {
/// C01/C05/C15: creating a directory with a name that is not acceptable fails with the unsupported-character error
/// and has NO side effect: no cluster is allocated (nothing leaks), nothing is written.
fn create_dir_invalid_name_no_side_effect() {
    let g = geo();
    let dir = populated_dir();
    let dev = mk_dev(dir);
    let fat = dev.fat0;
    let fs = ManuallyDrop::new(mk_fs_plain(dev, &g, NullTimeProvider::new(), false));
    let root = ManuallyDrop::new(fs.root_dir());
    let r = root.create_dir(":");
    assert!(matches!(r, Err(Error::UnsupportedFileNameCharacter)));
    core::mem::forget(r);
    let d = fs.disk.borrow();
    assert!(!d.oob);
    let i: usize = kani::any();
    kani::assume(i < FATW);
    assert!(d.fat0[i] == fat[i] && d.fat1[i] == fat[i]);
    assert!(d.total_writes == 0);
}
}

stubbed_proof! {
/// C01/C18: renaming "A" to the free name "C" inside the same directory: Ok; afterwards exactly one live entry is
/// named "C" and carries A's body (attributes, timestamps, first cluster, size) unchanged; "A" is gone; "B", the
/// FAT and everything behind the end marker are untouched.
fn rename_file_step() {
    let g = geo();
    let dir = populated_dir();
    let dev = mk_dev(dir);
    let fat = dev.fat0;
    let fs = ManuallyDrop::new(mk_fs_plain(dev, &g, NullTimeProvider::new(), false));
    let root = ManuallyDrop::new(fs.root_dir());
    let r = root.rename_internal("A", &root, "C");
    assert!(r.is_ok());
    let d = fs.disk.borrow();
    assert!(!d.oob);
    // the freed slot 0 is the first fit for the one-slot entry: it is reused
    assert!(d.dir[0] == b'C' && d.dir[1] == b' ' && d.dir[8] == b' ' && same_slot(&d.dir, &dir, 0, 11));
    assert!(same_slot(&d.dir, &dir, 1, 0) && same_slot(&d.dir, &dir, 2, 0));
    let i: usize = kani::any();
    kani::assume(i < FATW);
    assert!(d.fat0[i] == fat[i] && d.fat1[i] == fat[i]);
}
}

stubbed_proof! {
/// C01: renaming onto an existing name fails with AlreadyExists and writes nothing.
fn rename_onto_existing_step() {
    let g = geo();
    let dir = populated_dir();
    let dev = mk_dev(dir);
    let fs = ManuallyDrop::new(mk_fs_plain(dev, &g, NullTimeProvider::new(), false));
    let root = ManuallyDrop::new(fs.root_dir());
    let r = root.rename_internal("A", &root, "b");
    assert!(matches!(r, Err(Error::AlreadyExists)));
    let d = fs.disk.borrow();
    assert!(d.total_writes == 0 && !d.oob);
}
}

// ------------------------------------------------------------------------------------------- entry creation (C01, C03, C11, C15)

/// C01/C03/C11: `Dir::write_entry(name, entry)` into a fixed root whose four slots are an ARBITRARY mix of used, deleted,
/// long-name and end-marker slots (first byte and attribute byte of each slot symbolic; precondition from the
/// specification: everything behind the end marker is zero). On success the slots [s, e) reported for the new entry
///   * were all free before (deleted, or at/behind the end marker): no live slot is overwritten,
///   * are exactly as many as the name needs (8.3 build: 1; long-name build: 1 + ceil(units/13)),
///   * end with the short entry as given, preceded (long-name build) by a well-formed run for it,
/// and every other slot of the window is byte-for-byte unchanged; the storage position of the short entry is the
/// one reported. Name concrete ("ab").
fn write_entry_frame_check() {
    let g = geo();
    let mut dir = [0u8; DIRW];
    let b0: [u8; 4] = kani::any();
    let at: [u8; 4] = kani::any();
    let mut k = 0;
    let mut ended = false;
    while k < 4 {
        if b0[k] == 0 { ended = true; }
        if !ended { dir[k * 32] = b0[k]; dir[k * 32 + 11] = at[k]; }
        k += 1;
    }
    let dev = mk_dev(dir);
    let fs = ManuallyDrop::new(mk_fs_plain(dev, &g, NullTimeProvider::new(), false));
    let root = ManuallyDrop::new(fs.root_dir());
    let mut nm = [b' '; 11]; nm[0] = b'A'; nm[1] = b'B';
    let size: u32 = kani::any();
    let raw = crate::dir_entry::verif::file_entry(0, size).renamed(nm);
    let want: usize = if cfg!(feature = "lfn") { 2 } else { 1 };
    // enough room inside the window (the directory itself is 16 slots; behind the window the device stores nothing)
    let mut e0 = 0;
    while e0 < 4 && slot_class(&dir, e0) != 0 { e0 += 1; }
    let r = root.write_entry("ab", raw);
    let e = match r { Ok(e) => ManuallyDrop::new(e), Err(_) => { assert!(false); return; } };
    let (s, en) = ((e.offset_range.0 / 32) as usize, (e.offset_range.1 / 32) as usize);
    assert!(e.offset_range.0 % 32 == 0 && e.offset_range.1 % 32 == 0 && en == s + want);
    kani::assume(en <= 4); // the claim is about entries that land inside the modelled window
    assert!(e.entry_pos == g.root_base() + (en as u64 - 1) * 32);
    let d = fs.disk.borrow();
    assert!(!d.oob);
    let mut j = 0;
    while j < 4 {
        if j >= s && j < en {
            let c = slot_class(&dir, j);
            assert!(c == 1 || j >= e0);                           // was free
        } else {
            assert!(same_slot(&d.dir, &dir, j, 0));               // frame: untouched
        }
        j += 1;
    }
    assert!(s <= e0);                                                // no gap behind the end marker
    // the short entry as given
    assert!(d.dir[(en - 1) * 32] == b'A' && d.dir[(en - 1) * 32 + 1] == b'B' && d.dir[(en - 1) * 32 + 11] == 0x20);
    assert!(d.dir[(en - 1) * 32 + 28] == size as u8 && d.dir[(en - 1) * 32 + 31] == (size >> 24) as u8);
    #[cfg(feature = "lfn")]
    {
        assert!(run_well_formed(&d.dir, s, en - 1));
        assert!(d.dir[s * 32 + 1] == b'a' && d.dir[s * 32 + 3] == b'b' && d.dir[s * 32 + 5] == 0 && d.dir[s * 32 + 6] == 0
            && d.dir[s * 32 + 7] == 0xFF && d.dir[s * 32 + 11] == 0x0F);
    }
    kani::cover!(s == 0 && e0 >= 3);                         // hole at the start reused
    kani::cover!(s == e0 && e0 > 0);                         // appended at the end marker
    kani::cover!(s > 0 && s < e0 && slot_class(&dir, 0) == 1); // an earlier, too short hole was skipped / later hole used
}

#[cfg(not(feature = "lfn"))]
#[kani::proof]
#[kani::unwind(13)]
fn write_entry_frame() { write_entry_frame_check(); }

#[cfg(all(feature = "lfn", not(feature = "alloc")))]
#[kani::proof]
#[kani::unwind(264)]
fn write_entry_frame_lfn() { write_entry_frame_check(); }

// ------------------------------------------------------------------------------------------- creation steps (C01, C03, C10, C12, C18)

fn dos_date(d: &crate::time::Date) -> u16 { ((d.year - 1980) << 9) | (d.month << 5) | d.day }
fn dos_time(t: &crate::time::Time) -> (u16, u8) { ((t.hour << 11) | (t.min << 5) | (t.sec / 2), ((t.sec % 2) * 100 + t.millis / 10) as u8) }

stubbed_proof! {
/// C01/C03/C18: `create_dir("D")` in an empty root directory. The window models the first four slots of the NEW
/// directory's cluster (6, the first free one) and starts out as stale garbage. Afterwards: cluster 6 is the end of a
/// chain in both FAT copies and everything else in the table is unchanged; the cluster was zeroed before use; slot 0 is
/// "." pointing at cluster 6, slot 1 is ".." pointing at 0 (the parent is the root), both directories, slot 2 is the end
/// marker; all three stamps of the dot entries come from the time provider; the volume was marked dirty first and the
/// parent's entry "D" (directory, first cluster 6) was written into the root region.
fn create_dir_dot_entries() {
    let g = geo();
    let mut dev = mk_dev([0xAA; DIRW]);
    dev.dir_base = g.cluster_off(6);
    let fat = dev.fat0;
    let clock = crate::file::verif::any_clock();
    let fs = ManuallyDrop::new(mk_fs_plain(dev, &g, clock, false));
    let root = ManuallyDrop::new(fs.root_dir());
    let r = root.create_dir("D");
    assert!(r.is_ok());
    core::mem::forget(r);
    let d = fs.disk.borrow();
    assert!(!d.oob);
    use crate::verif_support::spec;
    assert!(spec::classify(0, spec::raw(0, &d.fat0, 6)) == 3 && spec::raw(0, &d.fat0, 7) == 0);
    let c: u32 = kani::any();
    kani::assume(c < 8 && c != 6);
    assert!(spec::raw(0, &d.fat0, c) == spec::raw(0, &fat, c));
    let i: usize = kani::any();
    kani::assume(i < FATW);
    assert!(d.fat0[i] == d.fat1[i]);
    // log: dirty bit, then the zeroing of the whole new cluster, then the parent's entry in the root region
    assert!(d.nw >= 3 && d.w_off[0] == 0x25 && d.w_len[0] == 1 && d.w_first[0] & 1 == 1);
    assert!(d.w_off[1] == g.cluster_off(6) && d.w_len[1] == 512 && d.w_first[1] == 0);
    assert!(d.w_off[2] == g.root_base() && d.w_len[2] == 11 && d.w_first[2] == b'D');
    // dot entries
    assert!(d.dir[0] == b'.' && d.dir[1] == b' ' && d.dir[10] == b' ' && d.dir[11] == 0x10);
    assert!(d.dir[26] == 6 && d.dir[27] == 0 && d.dir[20] == 0 && d.dir[21] == 0);
    assert!(d.dir[32] == b'.' && d.dir[33] == b'.' && d.dir[34] == b' ' && d.dir[42] == b' ' && d.dir[43] == 0x10);
    assert!(d.dir[32 + 26] == 0 && d.dir[32 + 27] == 0 && d.dir[32 + 20] == 0 && d.dir[32 + 21] == 0);
    let j: usize = kani::any();
    kani::assume(j >= 64 && j < DIRW);
    assert!(d.dir[j] == 0);
    // sizes of directories are zero
    assert!(d.dir[28] == 0 && d.dir[29] == 0 && d.dir[30] == 0 && d.dir[31] == 0);
    // stamps from the provider (creation with its fine byte, access date, modification)
    let (dd, (tt, fine)) = (dos_date(&clock.now.date), dos_time(&clock.now.time));
    let k: usize = kani::any();
    kani::assume(k < 2);
    let s = k * 32;
    assert!(d.dir[s + 13] == fine && d.dir[s + 14] == tt as u8 && d.dir[s + 15] == (tt >> 8) as u8);
    assert!(d.dir[s + 16] == dd as u8 && d.dir[s + 17] == (dd >> 8) as u8 && d.dir[s + 18] == dd as u8 && d.dir[s + 19] == (dd >> 8) as u8);
    assert!(d.dir[s + 22] == tt as u8 && d.dir[s + 23] == (tt >> 8) as u8 && d.dir[s + 24] == dd as u8 && d.dir[s + 25] == (dd >> 8) as u8);
}
}

stubbed_proof! {
/// C01/C16/C18: `create_file("C")` next to "A" and "B": Ok; the new entry takes the first free slot (2), is named
/// "C" padded with spaces, is a plain file of size 0 owning no cluster, carries the provider's stamps; "A", "B", the FAT
/// and the slot behind it are untouched; the handle returned has no cluster and offset 0. `create_file("b")` on the
/// same directory opens the existing entry instead and writes nothing.
fn create_file_step() {
    let g = geo();
    let dir = populated_dir();
    let dev = mk_dev(dir);
    let fat = dev.fat0;
    let clock = crate::file::verif::any_clock();
    let fs = ManuallyDrop::new(mk_fs_plain(dev, &g, clock, false));
    let root = ManuallyDrop::new(fs.root_dir());
    let existing: bool = kani::any();
    let r = if existing { root.create_file("b") } else { root.create_file("C") };
    let f = match r { Ok(f) => ManuallyDrop::new(f), Err(_) => { assert!(false); return; } };
    let d = fs.disk.borrow();
    assert!(!d.oob);
    assert!(same_slot(&d.dir, &dir, 0, 0) && same_slot(&d.dir, &dir, 1, 0) && same_slot(&d.dir, &dir, 3, 0));
    let i: usize = kani::any();
    kani::assume(i < FATW);
    assert!(d.fat0[i] == fat[i] && d.fat1[i] == fat[i]);
    if existing {
        assert!(d.total_writes == 0);
        assert!(f.first_cluster() == Some(4));
    } else {
        assert!(f.first_cluster().is_none());
        assert!(d.dir[64] == b'C' && d.dir[65] == b' ' && d.dir[64 + 10] == b' ' && d.dir[64 + 11] == 0);
        assert!(d.dir[64 + 26] == 0 && d.dir[64 + 27] == 0 && d.dir[64 + 28] == 0 && d.dir[64 + 31] == 0);
        let (dd, (tt, fine)) = (dos_date(&clock.now.date), dos_time(&clock.now.time));
        assert!(d.dir[64 + 13] == fine && d.dir[64 + 14] == tt as u8 && d.dir[64 + 15] == (tt >> 8) as u8);
        assert!(d.dir[64 + 16] == dd as u8 && d.dir[64 + 17] == (dd >> 8) as u8 && d.dir[64 + 18] == dd as u8);
        assert!(d.dir[64 + 22] == tt as u8 && d.dir[64 + 24] == dd as u8 && d.dir[64 + 25] == (dd >> 8) as u8);
        // dirty bit first
        assert!(d.nw >= 1 && d.w_off[0] == 0x25 && d.w_first[0] & 1 == 1);
    }
    kani::cover!(existing);
    kani::cover!(!existing);
}
}

/// C17/C08 (concrete pattern of the step above, cheap): a complete one-slot long-name run, then a DELETED short entry
/// (or a volume label), then a live short entry whose name has the run's checksum. The run belonged to the deleted
/// entry: the live entry must be returned WITHOUT a long name, and its slot range must start behind the skipped slot.
#[cfg(all(feature = "lfn", not(feature = "alloc")))]
fn diriter_run_cut_check(label: bool) {
    let g = geo();
    let mut dir = [0u8; DIRW];
    let units: [u8; 26] = kani::any();
    let sfn: [u8; 11] = kani::any();
    kani::assume(sfn[0] != 0 && sfn[0] != 0xE5);
    let sum = crate::verif_support::spec::lfn_checksum(&sfn);
    // slot 0: long-name slot, order 1 | last flag, checksum of the LIVE entry's name (as after delete + re-create with the same 8.3 name)
    dir[0] = 0x41; dir[11] = 0x0F; dir[13] = sum;
    let mut i = 0;
    while i < 13 {
        let o = crate::verif_support::spec::LFN_UNIT_OFFSETS[i];
        dir[o] = units[2 * i]; dir[o + 1] = units[2 * i + 1];
        i += 1;
    }
    // slot 1: deleted short entry / volume label
    if label { dir[32] = b'L'; dir[32 + 11] = 0x08; } else { dir[32] = 0xE5; dir[32 + 11] = 0x20; }
    // slot 2: live short entry
    i = 0;
    while i < 11 { dir[64 + i] = sfn[i]; i += 1; }
    dir[64 + 11] = 0x20;
    let dev = mk_dev(dir);
    let fs = ManuallyDrop::new(mk_fs_plain(dev, &g, NullTimeProvider::new(), false));
    let root = ManuallyDrop::new(fs.root_dir());
    let mut it = ManuallyDrop::new(root.iter());
    match it.next() {
        Some(Ok(e)) => {
            let e = ManuallyDrop::new(e);
            assert!(e.entry_pos == g.root_base() + 64);
            assert!(e.long_file_name_as_ucs2_units().is_none());
            assert!(e.offset_range.0 == 64 && e.offset_range.1 == 96);
        }
        _ => assert!(false),
    }
}
#[cfg(all(feature = "lfn", not(feature = "alloc")))]
#[kani::proof]
#[kani::unwind(264)]
fn diriter_run_cut_by_deleted() { diriter_run_cut_check(false); }
#[cfg(all(feature = "lfn", not(feature = "alloc")))]
#[kani::proof]
#[kani::unwind(264)]
fn diriter_run_cut_by_label() { diriter_run_cut_check(true); }

/// must-fail twin (vacuity guard for the slot-allocation harnesses): claims that a new entry is always appended at the end
/// marker, i.e. that holes are never reused. Has to be refuted.
#[kani::proof]
#[kani::unwind(13)]
fn twin_find_free_always_appends() {
    let g = geo();
    let dir = sparse_dir();
    let dev = mk_dev(dir);
    let fs = ManuallyDrop::new(mk_fs_plain(dev, &g, NullTimeProvider::new(), false));
    let root = ManuallyDrop::new(fs.root_dir());
    let r = root.find_free_entries(1);
    let stream = match r { Ok(s) => ManuallyDrop::new(s), Err(_) => return };
    let pos = match stream.abs_pos() { Some(p) => p - g.root_base(), None => return };
    let mut e = 0;
    while e < 4 && kind_of(&dir, e) != Kind::End { e += 1; }
    assert!(pos == e as u64 * 32);
}
