// Harnesses for src/time.rs (C18, C17). Included as `crate::time::verif` under cfg(kani).
use super::*;

/// C18: every valid (y,m,d) survives encode/decode at one-day resolution.
#[kani::proof]
fn date_roundtrip() {
    let y: u16 = kani::any();
    let m: u16 = kani::any();
    let d: u16 = kani::any();
    kani::assume((1980..=2107).contains(&y) && (1..=12).contains(&m) && (1..=31).contains(&d));
    let date = Date::new(y, m, d);
    let raw = date.encode();
    // independent packing per the FAT specification: bits 15-9 year-1980, 8-5 month, 4-0 day
    assert!(raw == ((y - 1980) << 9) + (m << 5) + d);
    let back = Date::decode(raw);
    assert!(back.year == y && back.month == m && back.day == d);
    kani::cover!(y == 2107 && m == 12 && d == 31);
    kani::cover!(y == 1980 && m == 1 && d == 1);
    kani::cover!(y > 2043);
}

/// C18: every valid time of day survives encode/decode at 10 ms resolution (creation time).
#[kani::proof]
fn time_roundtrip() {
    let h: u16 = kani::any();
    let m: u16 = kani::any();
    let s: u16 = kani::any();
    let ms: u16 = kani::any();
    kani::assume(h <= 23 && m <= 59 && s <= 59 && ms <= 999);
    let t = Time::new(h, m, s, ms);
    let (lo, hi) = t.encode();
    // independent packing: bits 15-11 hours, 10-5 minutes, 4-0 seconds/2; tenths: 0..199 in 10ms units
    assert!(lo == (h << 11) + (m << 5) + (s >> 1));
    assert!(u16::from(hi) == (s & 1) * 100 + ms / 10);
    let d = Time::decode(lo, hi);
    assert!(d.hour == h && d.min == m && d.sec == s && d.millis == ms / 10 * 10);
    // 2-second resolution view (modification time ignores the hi-res byte)
    let d2 = Time::decode(lo, 0);
    assert!(d2.hour == h && d2.min == m && d2.sec == s / 2 * 2 && d2.millis == 0);
    kani::cover!(h >= 16 && s % 2 == 1 && ms == 999);
    kani::cover!(h == 0 && m == 0 && s == 0 && ms == 0);
}

/// C17: decoding arbitrary raw date/time words never panics or overflows; Date stays in year range.
#[kani::proof]
fn datetime_decode_total() {
    let d: u16 = kani::any();
    let t: u16 = kani::any();
    let hi: u8 = kani::any();
    let dt = DateTime::decode(d, t, hi);
    assert!(dt.date.year >= 1980 && dt.date.year <= 2107);
    assert!(dt.date.month <= 15 && dt.date.day <= 31);
    assert!(dt.time.hour <= 31 && dt.time.min <= 63 && dt.time.sec <= 64 && dt.time.millis <= 990);
    kani::cover!(dt.date.month == 0);
    kani::cover!(dt.time.sec == 64);
}

/// must-fail twin: claims 1 ms resolution, which the format does not have.
#[kani::proof]
fn twin_time_roundtrip_1ms() {
    let ms: u16 = kani::any();
    kani::assume(ms <= 999);
    let t = Time::new(1, 2, 3, ms);
    let (lo, hi) = t.encode();
    let d = Time::decode(lo, hi);
    assert!(d.millis == ms);
}
