// Harnesses for src/dir_entry.rs (C04, C08, C11, C13, C14, C15, C17, C18). Included as `crate::dir_entry::verif`.
use super::*;
use crate::fs::verif::{mk_fs_plain, Geo};
use crate::fs::{DiskSlice, LossyOemCpConverter};
use crate::io::Seek;
use crate::time::{Time, NullTimeProvider};
use crate::verif_support::dev::{LogDev, TotDev};
use crate::verif_support::spec;

fn u16_at(b: &[u8; 32], o: usize) -> u16 { (b[o] as u16) | ((b[o + 1] as u16) << 8) }
fn u32_at(b: &[u8; 32], o: usize) -> u32 { (u16_at(b, o) as u32) | ((u16_at(b, o + 2) as u32) << 16) }

pub(crate) fn any_file_entry() -> DirFileEntryData {
    DirFileEntryData {
        name: kani::any(),
        attrs: FileAttributes::from_bits_truncate(kani::any()),
        reserved_0: kani::any(),
        create_time_0: kani::any(),
        create_time_1: kani::any(),
        create_date: kani::any(),
        access_date: kani::any(),
        first_cluster_hi: kani::any(),
        modify_time: kani::any(),
        modify_date: kani::any(),
        first_cluster_lo: kani::any(),
        size: kani::any(),
    }
}

/// A plain file entry with the given first cluster and size (other fields fixed), for File-level harnesses.
pub(crate) fn file_entry(first_cluster: u32, size: u32) -> DirFileEntryData {
    DirFileEntryData {
        name: *b"A       TXT",
        attrs: FileAttributes::from_bits_truncate(0x20),
        first_cluster_lo: first_cluster as u16,
        first_cluster_hi: (first_cluster >> 16) as u16,
        size,
        ..DirFileEntryData::default()
    }
}
pub(crate) fn dir_entry_data(first_cluster: u32) -> DirFileEntryData {
    DirFileEntryData {
        name: *b"D          ",
        attrs: FileAttributes::DIRECTORY,
        first_cluster_lo: first_cluster as u16,
        first_cluster_hi: (first_cluster >> 16) as u16,
        ..DirFileEntryData::default()
    }
}
pub(crate) fn editor(data: DirFileEntryData, pos: u64) -> DirEntryEditor { DirEntryEditor::new(data, pos) }
pub(crate) fn editor_state(e: &DirEntryEditor) -> (&DirFileEntryData, u64, bool) { (&e.data, e.pos, e.dirty) }
pub(crate) fn editor_set_dirty(e: &mut DirEntryEditor, d: bool) { e.dirty = d; }
pub(crate) fn entry_raw_times(e: &DirFileEntryData) -> (u16, u16, u8, u16, u16, u16) {
    (e.create_date, e.create_time_1, e.create_time_0, e.modify_date, e.modify_time, e.access_date)
}
pub(crate) fn entry_size_cluster(e: &DirFileEntryData) -> (u32, u16, u16) { (e.size, e.first_cluster_lo, e.first_cluster_hi) }

pub(crate) fn any_valid_datetime() -> DateTime {
    let y: u16 = kani::any();
    let mo: u16 = kani::any();
    let d: u16 = kani::any();
    let h: u16 = kani::any();
    let mi: u16 = kani::any();
    let s: u16 = kani::any();
    let ms: u16 = kani::any();
    kani::assume((1980..=2107).contains(&y) && (1..=12).contains(&mo) && (1..=31).contains(&d));
    kani::assume(h <= 23 && mi <= 59 && s <= 59 && ms <= 999);
    DateTime::new(Date::new(y, mo, d), Time::new(h, mi, s, ms))
}

// ------------------------------------------------------------------------------------------- slot (de)serialisation (C04, C08, C17)

/// C04/C08/C17: decoding ANY 32 bytes never fails or panics; every field equals the specification's offsets; the
/// long-name / short-name classification follows the attribute byte; re-encoding reproduces the bytes (except the
/// two undefined attribute bits); every accessor is total.
#[kani::proof]
#[kani::unwind(34)]
fn slot_roundtrip() {
    let raw: [u8; 32] = kani::any();
    let mut dev = TotDev::<32>::new(raw);
    let r = {
        let mut sl = DiskSlice::<&mut TotDev<32>, TotDev<32>>::new(0, 32, 1, &mut dev);
        DirEntryData::deserialize(&mut sl)
    };
    let e = match r { Ok(e) => e, Err(_) => { assert!(false); return; } };
    let is_lfn = raw[11] & 0x0F == 0x0F;
    let mut out = TotDev::<32>::new([0; 32]);
    match &e {
        DirEntryData::File(f) => {
            assert!(!is_lfn);
            assert!(f.name == [raw[0], raw[1], raw[2], raw[3], raw[4], raw[5], raw[6], raw[7], raw[8], raw[9], raw[10]]);
            assert!(f.attrs.bits() == raw[11] & 0x3F);
            assert!(f.reserved_0 == raw[12] && f.create_time_0 == raw[13]);
            assert!(f.create_time_1 == u16_at(&raw, 14) && f.create_date == u16_at(&raw, 16) && f.access_date == u16_at(&raw, 18));
            assert!(f.first_cluster_hi == u16_at(&raw, 20) && f.modify_time == u16_at(&raw, 22) && f.modify_date == u16_at(&raw, 24));
            assert!(f.first_cluster_lo == u16_at(&raw, 26) && f.size == u32_at(&raw, 28));
            // accessors (C08/C17)
            assert!(f.is_deleted() == (raw[0] == 0xE5) && f.is_end() == (raw[0] == 0) && f.is_volume() == (raw[11] & 0x08 != 0));
            assert!(f.is_dir() == (raw[11] & 0x10 != 0));
            assert!(f.size() == if raw[11] & 0x10 != 0 { None } else { Some(u32_at(&raw, 28)) });
            let lo = u16_at(&raw, 26) as u32;
            let hi = u16_at(&raw, 20) as u32;
            assert!(f.first_cluster(FatType::Fat32) == if (hi << 16 | lo) == 0 { None } else { Some(hi << 16 | lo) });
            assert!(f.first_cluster(FatType::Fat16) == if lo == 0 { None } else { Some(lo) });   // high word ignored
            assert!(f.first_cluster(FatType::Fat12) == f.first_cluster(FatType::Fat16));
            let _ = (f.created(), f.modified(), f.accessed());
            let _ = ShortName::new(f.name());
            assert!(f.serialize(&mut out).is_ok());
            kani::cover!(raw[0] == 0xE5);
            kani::cover!(raw[11] & 0xC0 != 0);
            kani::cover!(hi != 0);
        }
        DirEntryData::Lfn(l) => {
            assert!(is_lfn);
            assert!(l.order == raw[0] && l.entry_type == raw[12] && l.checksum == raw[13] && l.reserved_0 == u16_at(&raw, 26));
            let mut part = [0u16; 13];
            l.copy_name_to_slice(&mut part);
            let i: usize = kani::any();
            kani::assume(i < 13);
            assert!(part[i] == spec::lfn_unit(&raw, i));
            assert!(l.is_deleted() == (raw[0] == 0xE5) && l.is_end() == (raw[0] == 0));
            assert!(l.serialize(&mut out).is_ok());
            kani::cover!(raw[0] & 0x40 != 0);
        }
    }
    assert!(!out.oob && out.pos == 32);
    let k: usize = kani::any();
    kani::assume(k < 32);
    if k == 11 { assert!(out.data[11] == raw[11] & 0x3F); } else { assert!(out.data[k] == raw[k]); }
}

/// C08/C17: short-name decoding of ANY 11 bytes: base trimmed of trailing spaces, dot only with a non-empty
/// extension, 0x05 lead byte means 0xE5, length <= 12; never panics.
#[kani::proof]
#[kani::unwind(14)]
fn short_name_decode() {
    let raw: [u8; 11] = kani::any();
    let sn = ShortName::new(&raw);
    let mut bl = 8;
    while bl > 0 && raw[bl - 1] == b' ' { bl -= 1; }
    let mut el = 3;
    while el > 0 && raw[8 + el - 1] == b' ' { el -= 1; }
    let exp_len = if el > 0 { bl + 1 + el } else { bl };
    let got = sn.as_bytes();
    assert!(got.len() == exp_len && exp_len <= 12);
    let i: usize = kani::any();
    kani::assume(i < exp_len);
    let exp = if i < bl { if i == 0 && raw[0] == 0x05 { 0xE5 } else { raw[i] } } else if i == bl { b'.' } else { raw[8 + (i - bl - 1)] };
    assert!(got[i] == exp);
    kani::cover!(bl == 0 && el == 3);
    kani::cover!(raw[0] == 0x05 && bl > 0);
    kani::cover!(bl == 8 && el == 0);
}

/// C08: the lower-case flags of a short-name-only entry (bits 3 and 4 of the reserved byte) affect base and
/// extension independently and only ASCII letters.
#[cfg(feature = "alloc")]
#[kani::proof]
#[kani::unwind(14)]
fn lowercase_flags() {
    let mut e = any_file_entry();
    let flags: u8 = kani::any();
    e.reserved_0 = flags;
    let raw = e.name;
    let sn = e.lowercase_name();
    let mut adj = raw;
    let mut i = 0;
    while i < 11 {
        let lower = if i < 8 { flags & 0x08 != 0 } else { flags & 0x10 != 0 };
        if lower && adj[i] >= b'A' && adj[i] <= b'Z' { adj[i] += 32; }
        i += 1;
    }
    let reference = ShortName::new(&adj);
    assert!(sn.as_bytes().len() == reference.as_bytes().len());
    let k: usize = kani::any();
    kani::assume(k < sn.as_bytes().len());
    assert!(sn.as_bytes()[k] == reference.as_bytes()[k]);
    kani::cover!(flags & 0x18 == 0x08 && raw[0] == b'Q' && raw[8] == b'Z');
}

// ------------------------------------------------------------------------------------------- timestamps (C18)

/// C18: explicit timestamps survive set -> (serialize -> deserialize = reopen) -> get at the documented resolutions
/// (creation 10 ms, modification 2 s, access one day) for every representable date and time.
#[kani::proof]
#[kani::unwind(34)]
fn entry_time_fields() {
    let mut e = any_file_entry();
    kani::assume(e.attrs.bits() & 0x0F != 0x0F);
    let c = any_valid_datetime();
    let m = any_valid_datetime();
    let a = any_valid_datetime().date;
    let before = e.clone();
    e.set_created(c);
    e.set_modified(m);
    e.set_accessed(a);
    // reopen: what is on disk is what serialize writes
    let mut dev = TotDev::<32>::new([0; 32]);
    assert!(e.serialize(&mut dev).is_ok());
    dev.pos = 0;
    let back = {
        let mut sl = DiskSlice::<&mut TotDev<32>, TotDev<32>>::new(0, 32, 1, &mut dev);
        DirEntryData::deserialize(&mut sl)
    };
    let f = match back { Ok(DirEntryData::File(f)) => f, _ => { assert!(false); return; } };
    let cr = f.created();
    assert!(cr.date == c.date && cr.time.hour == c.time.hour && cr.time.min == c.time.min && cr.time.sec == c.time.sec
            && cr.time.millis == c.time.millis / 10 * 10);
    let mo = f.modified();
    assert!(mo.date == m.date && mo.time.hour == m.time.hour && mo.time.min == m.time.min && mo.time.sec == m.time.sec / 2 * 2
            && mo.time.millis == 0);
    assert!(f.accessed() == a);
    // nothing else in the entry moved
    assert!(f.name == before.name && f.attrs == before.attrs && f.size == before.size && f.reserved_0 == before.reserved_0
            && f.first_cluster_lo == before.first_cluster_lo && f.first_cluster_hi == before.first_cluster_hi);
    kani::cover!(c.time.sec % 2 == 1 && c.time.millis == 990 && c.date.year > 2043);
    kani::cover!(m.time.hour >= 16);
}

/// C18: a rename keeps every field of the entry body (timestamps, size, cluster, attributes); only the name changes.
#[kani::proof]
#[kani::unwind(14)]
fn renamed_keeps_body() {
    let e = any_file_entry();
    let new_name: [u8; 11] = kani::any();
    let r = e.renamed(new_name);
    assert!(r.name == new_name);
    assert!(r.attrs == e.attrs && r.reserved_0 == e.reserved_0 && r.create_time_0 == e.create_time_0 && r.create_time_1 == e.create_time_1
            && r.create_date == e.create_date && r.access_date == e.access_date && r.first_cluster_hi == e.first_cluster_hi
            && r.modify_time == e.modify_time && r.modify_date == e.modify_date && r.first_cluster_lo == e.first_cluster_lo && r.size == e.size);
}

// ------------------------------------------------------------------------------------------- editor (C11, C13, C14, C18)

/// C11/C13/C14: DirEntryEditor::flush writes exactly the 32 bytes of the entry at its recorded position when (and
/// only when) something changed, then clears the latch; setters set the latch exactly when the stored value changes.
#[kani::proof]
#[kani::unwind(34)]
fn editor_flush_writes_entry_once() {
    let data = any_file_entry();
    let pos: u64 = kani::any();
    kani::assume(pos <= (1u64 << 43));
    let g = Geo::small(FatType::Fat16, 6);
    let fs = core::mem::ManuallyDrop::new(mk_fs_plain(LogDev::new(u64::MAX), &g, NullTimeProvider::new(), false));
    let mut ed = DirEntryEditor::new(data.clone(), pos);
    assert!(!ed.dirty);
    // setters
    let new_size: u32 = kani::any();
    ed.set_size(new_size);
    let size_changes = data.size().map_or(false, |s| s != new_size);
    assert!(ed.dirty == size_changes);
    assert!(ed.data.size == if size_changes { new_size } else { data.size });
    let dt = any_valid_datetime();
    let dirty_before_time = ed.dirty;
    ed.set_modified(dt);
    assert!(ed.dirty == (dirty_before_time || dt != data.modified()));
    let was_dirty = ed.dirty;
    let watch: u64 = kani::any();
    kani::assume(watch >= pos && watch < pos + 32);
    fs.disk.borrow_mut().watch_addr = watch;
    fs.disk.borrow_mut().watch_val = 0x5A;
    assert!(ed.flush(&*fs).is_ok());
    {
        let d = fs.disk.borrow();
        if was_dirty {
            // a sequence of contiguous small writes covering exactly [pos, pos+32)
            assert!(!d.overflow || d.total_writes == 12);
            assert!(d.total_writes == 12 && d.w_off[0] == pos && d.max_end == pos + 32);
            let mut img = TotDev::<32>::new([0; 32]);
            assert!(ed.data.serialize(&mut img).is_ok());
            assert!(d.watch_val == img.data[(watch - pos) as usize]);
        } else {
            assert!(d.total_writes == 0 && d.watch_val == 0x5A);
        }
        assert!(d.flushes == 0);
    }
    assert!(!ed.dirty);
    // a second flush writes nothing
    let w = fs.disk.borrow().total_writes;
    assert!(ed.flush(&*fs).is_ok());
    assert!(fs.disk.borrow().total_writes == w);
    kani::cover!(was_dirty && !size_changes);
    kani::cover!(!was_dirty);
}

/// C02/C04: set_first_cluster stores the high word only on FAT32 and marks the entry dirty only on change.
#[kani::proof]
#[kani::unwind(14)]
fn editor_first_cluster() {
    let data = any_file_entry();
    let sel: u8 = kani::any();
    let ft = match sel % 3 { 0 => FatType::Fat12, 1 => FatType::Fat16, _ => FatType::Fat32 };
    let mut ed = DirEntryEditor::new(data.clone(), 0);
    let c: Option<u32> = kani::any();
    if let Some(x) = c {
        kani::assume(x >= 2 && x <= 0x0FFF_FFF6);
        if ft != FatType::Fat32 { kani::assume(x < 0xFFF7); }
    }
    ed.set_first_cluster(c, ft);
    assert!(ed.data.first_cluster(ft) == c);
    assert!(ed.dirty == (data.first_cluster(ft) != c));
    if ft != FatType::Fat32 { assert!(ed.data.first_cluster_hi == data.first_cluster_hi); }
    kani::cover!(ft == FatType::Fat32 && matches!(c, Some(x) if x > 0xFFFF));
    kani::cover!(c.is_none() && ed.dirty);
}

// ------------------------------------------------------------------------------------------- name comparison (C15, C19)

#[cfg(all(feature = "alloc", feature = "lfn"))]
fn mk_entry<'a>(fs: &'a crate::fs::verif::Fs<LogDev, NullTimeProvider>, sfn: [u8; 11], lfn: &[u16]) -> DirEntry<'a, LogDev, NullTimeProvider, LossyOemCpConverter> {
    DirEntry {
        data: DirFileEntryData::new(sfn, FileAttributes::from_bits_truncate(0)),
        short_name: ShortName::new(&sfn),
        lfn_utf16: crate::dir::verif::lfn_buffer_from(lfn),
        entry_pos: 0,
        offset_range: (0, 0),
        fs,
    }
}

fn ascii_upper(b: u8) -> u8 { if b >= b'a' && b <= b'z' { b - 32 } else { b } }

/// C15/C19: for ASCII names, lookup matches exactly the names that equal the stored long name or the stored short
/// alias ignoring ASCII case, and nothing else (same in every build: char_to_uppercase is ASCII-exact below 0x80).
#[cfg(all(feature = "alloc", feature = "lfn"))]
#[kani::proof]
#[kani::unwind(14)]
fn eq_name_ascii() {
    let g = Geo::small(FatType::Fat16, 6);
    let fs = core::mem::ManuallyDrop::new(mk_fs_plain(LogDev::new(u64::MAX), &g, NullTimeProvider::new(), false));
    // stored long name: 2 ASCII units; stored alias: 2-byte base, no extension; query: 1 or 2 ASCII bytes
    let l: [u8; 2] = kani::any();
    kani::assume(l[0] < 0x80 && l[1] < 0x80 && l[0] != 0 && l[1] != 0);
    let units = [l[0] as u16, l[1] as u16];
    let s: [u8; 2] = kani::any();
    kani::assume(s[0] < 0x80 && s[1] < 0x80 && s[0] != b' ' && s[1] != b' ' && s[0] != 0x05);
    let mut sfn = [b' '; 11];
    sfn[0] = s[0];
    sfn[1] = s[1];
    let e = core::mem::ManuallyDrop::new(mk_entry(&*fs, sfn, &units));
    let q: [u8; 2] = kani::any();
    let ql: usize = kani::any();
    kani::assume(ql >= 1 && ql <= 2 && q[0] < 0x80 && q[1] < 0x80);
    let name = unsafe { core::str::from_utf8_unchecked(&q[..ql]) };
    let got = e.eq_name(name);
    let eq_l = ql == 2 && ascii_upper(q[0]) == ascii_upper(l[0]) && ascii_upper(q[1]) == ascii_upper(l[1]);
    let eq_s = ql == 2 && ascii_upper(q[0]) == ascii_upper(s[0]) && ascii_upper(q[1]) == ascii_upper(s[1]);
    assert!(got == (eq_l || eq_s));
    kani::cover!(got && eq_l && !eq_s && q[0] != l[0]);   // matched the long name through case folding only
    kani::cover!(got && eq_s && !eq_l);
    kani::cover!(!got && ql == 2);
    kani::cover!(!got && ql == 1);                          // a prefix is not a match
}

/// C19: below 0x80 the case-folding helper is exactly ASCII upper-casing (one char out), in every build.
#[kani::proof]
#[kani::unwind(6)]
fn upper_ascii_agree() {
    let b: u8 = kani::any();
    kani::assume(b < 0x80);
    let mut it = char_to_uppercase(b as char);
    assert!(it.next() == Some(ascii_upper(b) as char));
    assert!(it.next().is_none());
}

/// C15/C19: lookups with CONCRETE names that differ only by case, including Unicode case mappings that change the
/// number of UTF-16 units (ß -> SS, U+FB01 -> FI) and title/upper pairs (U+01C6 / U+01C4). With the unicode feature
/// these match; without it only ASCII letters fold. A name never matches a proper prefix or extension of itself.
#[cfg(all(feature = "alloc", feature = "lfn"))]
fn eq_case(l: &[u16], q: &str, expect_unicode: bool, expect_ascii_only: bool) {
    let g = Geo::small(FatType::Fat16, 6);
    let fs = core::mem::ManuallyDrop::new(mk_fs_plain(LogDev::new(u64::MAX), &g, NullTimeProvider::new(), false));
    let mut sfn = [b' '; 11];
    sfn[0] = b'X'; sfn[1] = b'~'; sfn[2] = b'1';
    let e = core::mem::ManuallyDrop::new(mk_entry(&*fs, sfn, l));
    let got = e.eq_name(q);
    let expect = if cfg!(feature = "unicode") { expect_unicode } else { expect_ascii_only };
    assert!(got == expect);
    // symmetric use: the alias itself always matches, in any case
    assert!(e.eq_name("x~1") && e.eq_name("X~1"));
}
macro_rules! eq_case {
    ($name:ident, $l:expr, $q:expr, $u:expr, $a:expr) => {
        #[cfg(all(feature = "alloc", feature = "lfn"))]
        #[kani::proof]
        #[kani::unwind(16)]
        fn $name() { eq_case(&$l, $q, $u, $a); }
    };
}
eq_case!(eq_case_sharp_s_upper, [0x00DFu16], "SS", true, false);
eq_case!(eq_case_sharp_s_lower, [0x00DFu16], "ss", true, false);
eq_case!(eq_case_sharp_s_self, [0x00DFu16], "\u{DF}", true, true);
eq_case!(eq_case_sharp_s_prefix, [0x00DFu16], "S", false, false);
eq_case!(eq_case_mixed_expand, [0x61u16, 0x00DF], "ASS", true, false);
eq_case!(eq_case_ligature_fi, [0xFB01u16], "fi", true, false);
eq_case!(eq_case_dz_title, [0x01C6u16], "\u{1C4}", true, false);
eq_case!(eq_case_dotted_i, [0x0130u16], "i", false, false);
eq_case!(eq_case_ascii, [0x61u16, 0x62], "AB", true, true);
eq_case!(eq_case_longer_query, [0x61u16, 0x62], "abc", false, false);
eq_case!(eq_case_shorter_query, [0x61u16, 0x62, 0x63], "ab", false, false);
eq_case!(eq_case_e_acute, [0x00E9u16], "\u{C9}", true, false);

#[kani::proof]
#[kani::unwind(16)]
fn probe_upper_literal() {
    let c = '\u{DF}';
    let mut it = c.to_uppercase();
    assert!(it.next() == Some('S'));
    assert!(it.next() == Some('S'));
    assert!(it.next().is_none());
}
#[kani::proof]
#[kani::unwind(16)]
fn probe_upper_from_str() {
    let c = "\u{DF}".chars().next().unwrap();
    let mut it = c.to_uppercase();
    assert!(it.next() == Some('S'));
    assert!(it.next() == Some('S'));
    assert!(it.next().is_none());
}
#[kani::proof]
#[kani::unwind(16)]
fn probe_upper_flat_map() {
    let mut it = "\u{DF}".chars().flat_map(char::to_uppercase);
    assert!(it.next() == Some('S'));
    assert!(it.next() == Some('S'));
    assert!(it.next().is_none());
}

/// Reference comparison used as a STUB for `ShortName::eq_ignore_case` in the directory-level namespace steps (8.3
/// build, ASCII names only): equal length and equal bytes after ASCII upper-casing. The real function is decided on its
/// own (`eq_name_ascii`, `eq_case_*`); its `flat_map(char_to_uppercase)` iterator chain costs minutes per comparison
/// inside a larger harness.
#[allow(dead_code)]
pub(crate) fn stub_eq_ignore_case<OCC: OemCpConverter>(this: &ShortName, name: &str, _occ: &OCC) -> bool {
    let n = usize::from(this.len);
    let b = name.as_bytes();
    if b.len() != n { return false; }
    let mut i = 0;
    while i < n {
        if ascii_upper(this.name[i]) != ascii_upper(b[i]) { return false; }
        i += 1;
    }
    true
}
