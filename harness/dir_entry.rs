// harnesses for dir_entry (included into /repo/src/dir_entry.rs under cfg(kani))
