"""Per-property claim texts for MANIFEST.json (consumed by bin/gen_manifest)."""

NOTES = ("Every check is bounded model checking (Kani/CBMC) of harnesses that call the real fatfs functions; "
         "see DESIGN.md for the decomposition of history-quantified properties into one-step obligations and for "
         "what is outside each claim. exit 2 from a check means inconclusive (timeout/OOM/vacuity), never a pass.")

CLAIMS = {
    "C18": {
        "text": "Bounded model checking, full finite domain: date and time packing is decided for every valid "
                "(y,m,d) and (h,m,s,ms) against the specification's bit layout; entry setters/getters and the "
                "stamping rules are decided as one-step obligations over symbolic entries and a symbolic clock.",
        "note": "Out: 'operations on other entries leave it untouched' beyond the write-frame conditions of C11; "
                "reopen is modelled as serialize -> deserialize of the 32-byte entry, not a remount.",
    },
}

NOT_APPLICABLE = {
    "C01": "refinement over histories of path-taking public calls is a whole-program run; a single create_file exceeds "
           "25 min in CBMC (measured, DESIGN.md §0/§3 C01), so no bound worth stating is reachable with this technique",
}

CLAIMS["C07"] = {
    "text": "Bounded model checking over ALL BPB field values: validation is total (no panic/overflow), accepts only "
            "coherent geometry per an independent u64 predicate, and the accepted geometry equals the reference parse; "
            "FS-info parsing/fixing decided on symbolic words; mount glue on a log device.",
    "note": "Structs are built directly (field-level symbolic), deserialisers have their own harnesses; a hang on a "
            "device that never delivers bytes is outside (device contract).",
}

CLAIMS["C06"] = {
    "text": "Bounded model checking of the formatting arithmetic over the whole 32-bit sector-count range: default "
            "options for every n >= 42 (threshold exact by a refuted twin), and symbolic options case-split by sector "
            "size x forced FAT type, each decided against an independent u64 validity predicate; FAT/root/FS-info "
            "initialisation decided on small table and log devices.",
    "note": "Out: mounting the formatted image through FileSystem::new + stats() as one run (composition); the mount side "
            "is C07's harnesses on the same BPB struct. FAT32 region writes are checked by offset/length log only.",
}

CLAIMS["C05"] = {
    "text": "Bounded model checking, inductive decomposition: on a fully symbolic FAT window alloc/free/truncate change the "
            "number of zero entries by exactly -1/+len/+tail and count_free equals that number; at FileSystem level the cached "
            "counter follows the table exactly and stays exact through every allocating/freeing unit, the hint stays in range, "
            "the FS-info sector written at unmount carries both; NotEnoughSpace only when no zero entry exists.",
    "note": "Induction (cached count = table zero-count is preserved by each unit) is a written argument; only the steps are "
            "machine-checked. FileSystem-level steps use concrete table variants (symbolic table only at table level). "
            "Out: leaks caused by callers dropping a chain head on an error path; fixed-root slot exhaustion.",
}
CLAIMS["C10"] = {
    "text": "Bounded model checking: replicated writes of DiskSlice (symbolic geometry, 1-3 copies), table selection from "
            "the BPB flags, identical copies after FileSystem-level alloc/free/truncate with mirroring and untouched inactive "
            "copy without, reserved entries and padding never allocated, FAT32 reserved bits preserved on every update, "
            "format_fat layout.",
    "note": "'copies identical' is an inductive invariant: each table write is shown to reach all copies identically; the "
            "history quantifier is covered by that argument, not by exploring histories.",
}
CLAIMS["C12"] = {
    "text": "Bounded model checking of the dirty-bit funnel: set_dirty_flag (every mount byte/state), the FS adapter write "
            "path, File::write ordering (status byte before payload), unmount restoring the mount-time byte, and reporting "
            "from boot sector and FAT entry 1.",
    "note": "The bracket over whole histories follows from the one-step facts plus the syntactic funnel argument in "
            "DESIGN.md (every FAT/directory write goes through FsIoAdapter or File::write); abandonment/remount is not run.",
}
CLAIMS["C20"] = {
    "text": "Bounded model checking of 64-bit addressing over ALL accepted geometries: cluster/sector/byte offsets equal a "
            "u64 reference and stay inside the volume (covers >4 GiB, >1 TiB, last cluster), FAT entry offsets for every "
            "cluster number up to each width's maximum, allocation scan start and wrap-around with hints at/just before/"
            "past the end.",
    "note": "Scans over millions of entries are input-proportional loops and are not unwound: wrap logic is decided on the "
            "small window, offsets on the full 32-bit range; multi-TiB devices are not driven through the API.",
}

CLAIMS["C02"] = {
    "text": "Bounded model checking, one-step induction: every File operation (read, write incl. allocation, seek with any "
            "64-bit argument, truncate, flush) is decided from an arbitrary state satisfying the File representation invariant, "
            "against an array-with-cursor model, and shown to re-establish the invariant; payload placement is tracked by an "
            "arbitrary watched device address. Chain free/truncate on a fully symbolic FAT at table level.",
    "note": "Cursor cluster index is case-split (first/middle/last cluster, offset 0, empty file); 512-byte clusters; chain <= 3 "
            "clusters (fragmented); two files interleaved follows from the frame conditions (a step touches only its own chain "
            "and free clusters), not from a two-handle run. MAX_FILE_SIZE edge not constructed.",
}
CLAIMS["C03"] = {
    "text": "Bounded model checking of structural-invariant preservation per mutating unit: alloc/free/truncate keep a fully "
            "symbolic FAT well-formed (in-range, acyclic, no cross-link, links only to allocated clusters) and change exactly "
            "the specified entries; File::truncate cuts chains to ceil(size/cluster) and empties own no cluster; long-name runs "
            "produced by the generator are complete, ordered, padded and checksummed per an independent slot parser.",
    "note": "Out: cross-structure facts that need the whole image (each chain referenced by exactly one live entry, duplicate "
            "names, dot/dot-dot entries, slots after the end marker) - Dir-level operations are beyond CBMC's reach here (C01).",
}
CLAIMS["C04"] = {
    "text": "Bounded model checking at the (de)serialisation boundary: 32-byte slots (all 2^256 contents) decode to the "
            "specification's fields and re-encode identically; FS-info sector layout and round trip; long-name generator output "
            "parsed independently and decoded back; flush/drop hand the pending entry to the device then flush it; extents = "
            "chain mapped to device offsets.",
    "note": "Remount of a whole image and 'whatever a session did' (composition of calls) are outside; the encoder/decoder "
            "symmetry risk is addressed by an independent reference decoder in the harness, not by a second mount.",
}
CLAIMS["C08"] = {
    "text": "Bounded model checking of the read path's decoders on arbitrary foreign encodings: FAT entry classification for "
            "every raw value and width (all EOC markers, FAT32 high nibble), active-table selection, fragmented/backward chains, "
            "slot classification, short-name decoding (0x05, lower-case flags), first-cluster width; writes change only the "
            "addressed entry/copies.",
    "note": "Decoder-level: listings of generated whole images vs. ground truth are not run; OEM code page conversion is the "
            "library's default lossy converter.",
}
CLAIMS["C09"] = {
    "text": "Solver-driven single-fault injection: the failing device call index is a symbolic variable; for table-level, "
            "FileSystem-level and File-level operations every fault position yields Error::Io carrying the device's error token, "
            "no masking as another kind, and termination within a device-call budget (CBMC path mode, concrete pre-states).",
    "note": "Out: multi-fault schedules; Dir-level operations (create/remove/rename/iteration) - beyond reach (C01); "
            "destructor-issued calls are exempt per the property and are not driven.",
}
CLAIMS["C11"] = {
    "text": "Bounded model checking of where bytes land: cluster->byte offsets inside the volume for every accepted geometry, "
            "DiskSlice bounds and replicated writes, File::write's single payload write inside the current/fresh cluster, zeroing "
            "exactly the new cluster, entry write-back exactly 32 bytes at its position, status update exactly one byte, FS-info "
            "exactly its sector.",
    "note": "Per-unit write logs, not an ownership map of a whole image; directory-cluster writes by Dir operations are outside.",
}
CLAIMS["C13"] = {
    "text": "Bounded model checking of the latch invariant (entry clean, FS-info clean, status byte as at mount): each read-only "
            "unit (File::read, seek, stats, read_status_flags, flush, drop, unmount) issues no write from a state satisfying it "
            "and preserves it; only stats() on an unknown count may set the FS-info latch (the documented exception).",
    "note": "Directory iteration and label lookup are not driven (Dir level, see C01); access-date updating off unless stated.",
}
CLAIMS["C14"] = {
    "text": "Bounded model checking of the flush path: after File::flush / drop returns, the pending directory entry (size, first "
            "cluster, timestamps; witness byte over all 32 bytes) has been written at its position and the device flush was "
            "issued after the last write; FAT and data writes are issued synchronously by File::write (no cache).",
    "note": "The crash model is reduced to: no library-side write cache except the entry editor and FS-info; replay of "
            "truncated write logs into images + remount is not encoded (trusted reduction, see DESIGN.md).",
}
CLAIMS["C15"] = {
    "text": "Bounded model checking of name handling: validation decided for every UTF-8 string <= 4 bytes (all BMP code points) "
            "and at the exact length boundaries, short-name derivation total on every string <= 5 bytes (found the empty / "
            "multi-byte panic), long names encoded to slots and decoded back unit for unit, ASCII case folding exact.",
    "note": "Out: Unicode case folding of non-ASCII characters (char::to_uppercase tables are std's), lookup through Dir (C01); "
            "names longer than 39 units only through the length harnesses and the inductive builder step.",
}
CLAIMS["C16"] = {
    "text": "Bounded model checking of alias generation as lemmas over ALL collision states: produced bytes are always legal, an "
            "alias never equals an entry already fed to the generator (uniqueness by induction over the scan), a retry clears "
            "the bitmaps and succeeds (termination), and the checksum stored in long-name slots is the specification's.",
    "note": "Names <= 5 bytes quick / <= 8 bytes thorough; the directory-scanning loop itself (Dir::check_for_existence) is not "
            "driven (C01).",
}
CLAIMS["C17"] = {
    "text": "Bounded model checking of decoding totality: any 32-byte slot, any short name, any date/time words decode without "
            "panic; LongNameBuilder is decided by an inductive step from any invariant state (fixed-buffer build) plus all 2- and "
            "3-slot sequences against an independent definition of a well-formed run (broken => short-name fallback, <= 255 units).",
    "note": "In the alloc build the accepting path of the Vec-backed builder exhausts CBMC's memory (24-65 GB): there only "
            "broken patterns, the 20-slot bound and the buffer contract are checked; the builder source is shared by both builds. "
            "DirIter over a directory region is not driven.",
}
CLAIMS["C19"] = {
    "text": "Bounded model checking of both feature builds against the same reference: long-name slot generation identical "
            "(independent parser) with and without alloc; decoding in the fixed-buffer build equals the reference for all 2/3-slot "
            "sequences; Vec-backed buffer honours the fixed buffer's contract; ASCII case folding identical with and without unicode.",
    "note": "A cfg cannot vary inside one query: equality is by transitivity through the reference. Whole-image hashes and "
            "names > 39 units are outside (inductive step only).",
}
NOT_APPLICABLE.pop("C01", None)
NOT_APPLICABLE["C01"] = ("refinement over histories of path-taking public calls (create/open/list/remove/rename) is a whole-program run: one "
                         "Dir::create_file with a concrete one-character name did not finish in 25 min / 13 min (path mode) in CBMC and the "
                         "alloc-build long-name decoder alone exhausts 24-65 GB; no bound worth stating is reachable with this technique "
                         "(unit lemmas it would rest on are checked under C15/C16/C17/C03)")

# ---- round 2: C01 is claimed for SINGLE operations from constructed states (the gate of DESIGN §3 C01 opened, see §7)
CLAIMS["C01"] = {
    "text": "Bounded model checking of single directory-level steps on a directly constructed volume (FAT12, fixed root directory "
            "whose slots are a real window of arbitrary bytes): slot allocation is a first fit that overwrites no live slot and leaves "
            "no gap; one listing step returns exactly the next slot the specification calls an entry, with the slot range a later "
            "remove deletes, attaching a long name only from a well-formed run of that entry; entry creation changes only free "
            "slots; remove / rename on a populated root have exactly the specified slot and FAT effect; a rejected name or an "
            "existing target leaves the volume untouched.",
    "note": "NOT a refinement proof over histories: one operation per harness from constructed states; listings are covered by "
            "induction over the step (it depends on the stream position only). Out: paths of depth > 1, directories stored in "
            "cluster chains (FAT32 root, sub-directories), several live handles, FAT16/32 for the namespace steps, long names in the "
            "namespace steps (8.3 build; long-name pieces decided separately in the fixed-buffer build). memchr/memrchr of core are "
            "stubbed by naive loops in the namespace steps.",
    "design_ref": "DESIGN.md §3 C01 (gate) and §7",
    "technique": "bounded model checking of the real Rust code (Kani/CBMC, cadical): one-step harnesses over arbitrary directory "
                 "slots on a windowed device, reduced feature builds (std / std+lfn)",
}
NOT_APPLICABLE.pop("C01", None)
