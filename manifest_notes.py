"""Per-property claim texts for MANIFEST.json (consumed by bin/gen_manifest)."""

NOTES = ("Every check is bounded model checking (Kani/CBMC) of harnesses that call the real fatfs functions; "
         "see DESIGN.md for the decomposition of history-quantified properties into one-step obligations and for "
         "what is outside each claim. exit 2 from a check means inconclusive (timeout/OOM/vacuity), never a pass.")

CLAIMS = {
    "C18": {
        "text": "Bounded model checking, full finite domain: date and time packing is decided for every valid "
                "(y,m,d) and (h,m,s,ms) against the specification's bit layout; entry setters/getters and the "
                "stamping rules are decided as one-step obligations over symbolic entries and a symbolic clock.",
        "note": "Out: 'operations on other entries leave it untouched' beyond the write-frame conditions of C11; "
                "reopen is modelled as serialize -> deserialize of the 32-byte entry, not a remount.",
    },
}

NOT_APPLICABLE = {
    "C01": "refinement over histories of path-taking public calls is a whole-program run; a single create_file exceeds "
           "25 min in CBMC (measured, DESIGN.md §0/§3 C01), so no bound worth stating is reachable with this technique",
}

CLAIMS["C07"] = {
    "text": "Bounded model checking over ALL BPB field values: validation is total (no panic/overflow), accepts only "
            "coherent geometry per an independent u64 predicate, and the accepted geometry equals the reference parse; "
            "FS-info parsing/fixing decided on symbolic words; mount glue on a log device.",
    "note": "Structs are built directly (field-level symbolic), deserialisers have their own harnesses; a hang on a "
            "device that never delivers bytes is outside (device contract).",
}

CLAIMS["C06"] = {
    "text": "Bounded model checking of the formatting arithmetic over the whole 32-bit sector-count range: default "
            "options for every n >= 42 (threshold exact by a refuted twin), and symbolic options case-split by sector "
            "size x forced FAT type, each decided against an independent u64 validity predicate; FAT/root/FS-info "
            "initialisation decided on small table and log devices.",
    "note": "Out: mounting the formatted image through FileSystem::new + stats() as one run (composition); the mount side "
            "is C07's harnesses on the same BPB struct. FAT32 region writes are checked by offset/length log only.",
}

CLAIMS["C05"] = {
    "text": "Bounded model checking, inductive decomposition: on a fully symbolic FAT window alloc/free/truncate change the "
            "number of zero entries by exactly -1/+len/+tail and count_free equals that number; at FileSystem level the cached "
            "counter follows the table exactly and stays exact through every allocating/freeing unit, the hint stays in range, "
            "the FS-info sector written at unmount carries both; NotEnoughSpace only when no zero entry exists.",
    "note": "Induction (cached count = table zero-count is preserved by each unit) is a written argument; only the steps are "
            "machine-checked. FileSystem-level steps use concrete table variants (symbolic table only at table level). "
            "Out: leaks caused by callers dropping a chain head on an error path; fixed-root slot exhaustion.",
}
CLAIMS["C10"] = {
    "text": "Bounded model checking: replicated writes of DiskSlice (symbolic geometry, 1-3 copies), table selection from "
            "the BPB flags, identical copies after FileSystem-level alloc/free/truncate with mirroring and untouched inactive "
            "copy without, reserved entries and padding never allocated, FAT32 reserved bits preserved on every update, "
            "format_fat layout.",
    "note": "'copies identical' is an inductive invariant: each table write is shown to reach all copies identically; the "
            "history quantifier is covered by that argument, not by exploring histories.",
}
CLAIMS["C12"] = {
    "text": "Bounded model checking of the dirty-bit funnel: set_dirty_flag (every mount byte/state), the FS adapter write "
            "path, File::write ordering (status byte before payload), unmount restoring the mount-time byte, and reporting "
            "from boot sector and FAT entry 1.",
    "note": "The bracket over whole histories follows from the one-step facts plus the syntactic funnel argument in "
            "DESIGN.md (every FAT/directory write goes through FsIoAdapter or File::write); abandonment/remount is not run.",
}
CLAIMS["C20"] = {
    "text": "Bounded model checking of 64-bit addressing over ALL accepted geometries: cluster/sector/byte offsets equal a "
            "u64 reference and stay inside the volume (covers >4 GiB, >1 TiB, last cluster), FAT entry offsets for every "
            "cluster number up to each width's maximum, allocation scan start and wrap-around with hints at/just before/"
            "past the end.",
    "note": "Scans over millions of entries are input-proportional loops and are not unwound: wrap logic is decided on the "
            "small window, offsets on the full 32-bit range; multi-TiB devices are not driven through the API.",
}
