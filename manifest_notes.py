"""Per-property claim texts for MANIFEST.json (consumed by bin/gen_manifest)."""

NOTES = ("Every check is bounded model checking (Kani/CBMC) of harnesses that call the real fatfs functions; "
         "see DESIGN.md for the decomposition of history-quantified properties into one-step obligations and for "
         "what is outside each claim. exit 2 from a check means inconclusive (timeout/OOM/vacuity), never a pass.")

CLAIMS = {
    "C18": {
        "text": "Bounded model checking, full finite domain: date and time packing is decided for every valid "
                "(y,m,d) and (h,m,s,ms) against the specification's bit layout; entry setters/getters and the "
                "stamping rules are decided as one-step obligations over symbolic entries and a symbolic clock.",
        "note": "Out: 'operations on other entries leave it untouched' beyond the write-frame conditions of C11; "
                "reopen is modelled as serialize -> deserialize of the 32-byte entry, not a remount.",
    },
}

NOT_APPLICABLE = {
    "C01": "refinement over histories of path-taking public calls is a whole-program run; a single create_file exceeds "
           "25 min in CBMC (measured, DESIGN.md §0/§3 C01), so no bound worth stating is reachable with this technique",
}
