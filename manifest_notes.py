"""Per-property claim texts for MANIFEST.json (consumed by bin/gen_manifest)."""

NOTES = ("Every check is bounded model checking (Kani/CBMC) of harnesses that call the real fatfs functions; "
         "see DESIGN.md for the decomposition of history-quantified properties into one-step obligations and for "
         "what is outside each claim. exit 2 from a check means inconclusive (timeout/OOM/vacuity), never a pass.")

CLAIMS = {
    "C18": {
        "text": "Bounded model checking, full finite domain: date and time packing is decided for every valid "
                "(y,m,d) and (h,m,s,ms) against the specification's bit layout; entry setters/getters and the "
                "stamping rules are decided as one-step obligations over symbolic entries and a symbolic clock.",
        "note": "Out: 'operations on other entries leave it untouched' beyond the write-frame conditions of C11; "
                "reopen is modelled as serialize -> deserialize of the 32-byte entry, not a remount.",
    },
}

NOT_APPLICABLE = {
    "C01": "refinement over histories of path-taking public calls is a whole-program run; a single create_file exceeds "
           "25 min in CBMC (measured, DESIGN.md §0/§3 C01), so no bound worth stating is reachable with this technique",
}

CLAIMS["C07"] = {
    "text": "Bounded model checking over ALL BPB field values: validation is total (no panic/overflow), accepts only "
            "coherent geometry per an independent u64 predicate, and the accepted geometry equals the reference parse; "
            "FS-info parsing/fixing decided on symbolic words; mount glue on a log device.",
    "note": "Structs are built directly (field-level symbolic), deserialisers have their own harnesses; a hang on a "
            "device that never delivers bytes is outside (device contract).",
}

CLAIMS["C06"] = {
    "text": "Bounded model checking of the formatting arithmetic over the whole 32-bit sector-count range: default "
            "options for every n >= 42 (threshold exact by a refuted twin), and symbolic options case-split by sector "
            "size x forced FAT type, each decided against an independent u64 validity predicate; FAT/root/FS-info "
            "initialisation decided on small table and log devices.",
    "note": "Out: mounting the formatted image through FileSystem::new + stats() as one run (composition); the mount side "
            "is C07's harnesses on the same BPB struct. FAT32 region writes are checked by offset/length log only.",
}
