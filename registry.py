"""Registry of proof harnesses: which property each one serves, at which tier, with which bounds.

The harness bodies are in /verif/harness/<module>.rs and are compiled INTO the fatfs crate (as
`crate::<module>::verif`) under cfg(kani); names below are Kani's fully qualified harness names.
"""


class H:
    def __init__(self, name, props, what, bounds, tier="quick", expect="pass", build="alloc", mode="merged",
                 stubs=False, timeout=600, timeout_thorough=None, twin_desc=None, nonterm=False):
        self.name = name
        self.props = props
        self.what = what
        self.bounds = bounds
        self.tier = tier
        self.expect = expect          # "pass" or "twin" (must be refuted: vacuity guard)
        self.build = build            # feature set, see bin/check FEATURES
        self.mode = mode              # "merged" (default CBMC) or "path" (--paths lifo)
        self.stubs = stubs            # needs -Z stubbing
        self.timeout = timeout
        self.timeout_thorough = timeout_thorough or timeout
        self.twin_desc = twin_desc
        self.nonterm = nonterm        # an unwinding-assertion failure is itself the finding (termination oracle)

    def group(self):
        return (self.build, self.mode, self.stubs)

    def timeout_for(self, tier):
        return self.timeout_thorough if tier == "thorough" else self.timeout


def twin(name, props, what, twin_desc=None, **kw):
    return H(name, props, what, kw.pop("bounds", "same as the harness it guards"), expect="twin", twin_desc=twin_desc, **kw)


COMMON_ASSUMPTIONS = [
    "Kani 0.68 / CBMC 6.11 / cadical are sound for the generated goto-program; rustc MIR of Kani's pinned toolchain "
    "(not the repository's stable rustc) is what is analysed",
    "crate built with --no-default-features --features std,alloc,lfn,unicode unless the harness says otherwise: log "
    "macros compile to nothing and the default time provider is NullTimeProvider",
    "unwinding assertions are on: a loop bound that is too small is reported as inconclusive, never as a pass",
]

ASSUMPTIONS = {}

HARNESSES = []


def add(*hs):
    HARNESSES.extend(hs)


# ------------------------------------------------------------------ time.rs
add(
    H("time::verif::date_roundtrip", ["C18"],
      "Date::new(y,m,d).encode() equals the specification's bit packing and decodes back to (y,m,d)",
      "all y in 1980..=2107, m in 1..=12, d in 1..=31 (full domain, no loop)"),
    H("time::verif::time_roundtrip", ["C18"],
      "Time::encode packs per specification; decode returns h,m,s and millis rounded down to 10 ms; without the "
      "hi-res byte the result is the 2 s resolution value",
      "all h<=23, m<=59, s<=59, ms<=999 (full domain)"),
    H("time::verif::datetime_decode_total", ["C17", "C18"],
      "DateTime::decode never panics/overflows on arbitrary raw words and yields fields inside their bit-field ranges",
      "all 2^40 (date,time,tenths) triples"),
    twin("time::verif::twin_time_roundtrip_1ms", ["C18"], "claims 1 ms resolution (wrong)", "d.millis == ms"),
)
