"""Registry of proof harnesses: which property each one serves, at which tier, with which bounds.

The harness bodies are in /verif/harness/<module>.rs and are compiled INTO the fatfs crate (as
`crate::<module>::verif`) under cfg(kani); names below are Kani's fully qualified harness names.
"""


class H:
    def __init__(self, name, props, what, bounds, tier="quick", expect="pass", build="alloc", mode="merged",
                 stubs=False, timeout=600, timeout_thorough=None, twin_desc=None, nonterm=False, cbmc_args=(), mem=None):
        self.name = name
        self.props = props
        self.what = what
        self.bounds = bounds
        self.tier = tier
        self.expect = expect          # "pass" or "twin" (must be refuted: vacuity guard)
        self.build = build            # feature set, see bin/check FEATURES
        self.mode = mode              # "merged" (default CBMC) or "path" (--paths lifo)
        self.stubs = stubs            # needs -Z stubbing
        self.timeout = timeout
        self.timeout_thorough = timeout_thorough or timeout
        self.twin_desc = twin_desc
        self.nonterm = nonterm        # an unwinding-assertion failure is itself the finding (termination oracle)
        self.cbmc_args = tuple(cbmc_args)  # extra CBMC options (e.g. field-sensitivity threshold for the 128-byte directory window)
        # peak resident memory of the cbmc process in GB (measured, rounded up); the driver limits concurrency with it
        self.mem = mem if mem is not None else (4 if "::ops::" in name else 5 if ("::lnb_" in name or "::alias_" in name or "eq_case" in name) else 2)

    def key(self):
        return self.name + "@" + self.build

    def group(self):
        return (self.build, self.mode, self.stubs, self.cbmc_args)

    def timeout_for(self, tier):
        return self.timeout_thorough if tier == "thorough" else self.timeout


def twin(name, props, what, twin_desc=None, **kw):
    return H(name, props, what, kw.pop("bounds", "same as the harness it guards"), expect="twin", twin_desc=twin_desc, **kw)


COMMON_ASSUMPTIONS = [
    "Kani 0.68 / CBMC 6.11 / cadical are sound for the generated goto-program; rustc MIR of Kani's pinned toolchain "
    "(not the repository's stable rustc) is what is analysed",
    "crate built with --no-default-features --features std,alloc,lfn,unicode unless the harness says otherwise: log "
    "macros compile to nothing and the default time provider is NullTimeProvider",
    "unwinding assertions are on: a loop bound that is too small is reported as inconclusive, never as a pass",
]

ASSUMPTIONS = {}

HARNESSES = []


def add(*hs):
    HARNESSES.extend(hs)


# ------------------------------------------------------------------ time.rs
add(
    H("time::verif::date_roundtrip", ["C18"],
      "Date::new(y,m,d).encode() equals the specification's bit packing and decodes back to (y,m,d)",
      "all y in 1980..=2107, m in 1..=12, d in 1..=31 (full domain, no loop)"),
    H("time::verif::time_roundtrip", ["C18"],
      "Time::encode packs per specification; decode returns h,m,s and millis rounded down to 10 ms; without the "
      "hi-res byte the result is the 2 s resolution value",
      "all h<=23, m<=59, s<=59, ms<=999 (full domain)"),
    H("time::verif::datetime_decode_total", ["C17", "C18"],
      "DateTime::decode never panics/overflows on arbitrary raw words and yields fields inside their bit-field ranges",
      "all 2^40 (date,time,tenths) triples"),
    twin("time::verif::twin_time_roundtrip_1ms", ["C18"], "claims 1 ms resolution (wrong)", "d.millis == ms"),
)

# ------------------------------------------------------------------ boot_sector.rs
ASSUMPTIONS["C07"] = [
    "BPB/FS-info structs are constructed directly with symbolic fields; the byte-level deserialisers are checked by "
    "their own small harnesses (512 symbolic bytes through BootSector::deserialize exceed CBMC's memory here)",
    "hang-freedom of FileSystem::new on a device that short-reads forever is a device-contract matter and outside",
]
add(
    H("boot_sector::verif::bpb_validate_total", ["C07"],
      "BiosParameterBlock::validate on fully symbolic fields: no panic, no arithmetic overflow",
      "every value of every BPB field (labels fixed)"),
    H("boot_sector::verif::bpb_accept_coherent", ["C07"],
      "validate()==Ok implies the independent u64 coherence predicate (sector/cluster powers of two, non-zero FATs, "
      "regions fit without 32-bit wrap, FAT width = f(cluster count), FAT32 root cluster in range, fsinfo/backup in reserved area)",
      "every value of every BPB field"),
    H("boot_sector::verif::bpb_geometry_agrees", ["C07", "C20", "C04", "C11"],
      "for accepted BPBs root_dir_sectors/first_data_sector/total_clusters/cluster_size/FatType::from_clusters equal the u64 reference parse",
      "every accepted BPB"),
    twin("boot_sector::verif::twin_bpb_accept_two_fats", ["C07"], "claims every accepted volume has 2 FATs", "bpb.fats == 2"),
    H("boot_sector::verif::bpb_cluster_offset_in_volume", ["C11", "C20"],
      "for every accepted BPB and every cluster in [2,total+2): sector/byte offset arithmetic has no overflow, equals the "
      "u64 reference and the cluster ends inside total_sectors*bytes_per_sector (covers: offsets beyond 4 GiB and 1 TiB, last cluster)",
      "every accepted BPB x every valid cluster number"),
    H("boot_sector::verif::bpb_byte_sector_conversions", ["C20", "C11"],
      "bytes_from_sectors is the exact 64-bit product; clusters_from_bytes is the exact ceiling",
      "every sector number, every byte count < 2^32, every valid sector/cluster size"),
)

ASSUMPTIONS["C06"] = [
    "format_boot_sector + BootSector::validate(strict) is what format_volume runs before any I/O (fs.rs); the I/O part "
    "(region zeroing, FAT initialisation, FS-info) is decided by separate harnesses on table/log devices",
    "options are constructed as a struct literal: sector size one of the listed powers of two, cluster size any power of "
    "two 2^9..2^31, fats in {1,2} (the builder methods assert exactly these)",
]
add(
    H("boot_sector::verif::fmt_default_all_sizes", ["C06"],
      "format_boot_sector(default options, n) is Ok for every n", "every n in [42, 2^32-1]"),
    twin("boot_sector::verif::twin_fmt_default_41", ["C06"], "claims n >= 41 suffices (41 sectors cannot be formatted)", "r.is_ok()"),
    H("boot_sector::verif::fmt_default_valid", ["C06"],
      "default options: result passes BootSector::validate(strict) and the independent u64 validity predicate (FAT width = "
      "f(clusters), table addresses every cluster, regions fit, FAT32 root/fsinfo/backup placement, signature)",
      "every n in [42, 2^32-1]; covers FAT12, FAT16, FAT32, n = 2^32-1"),
    twin("boot_sector::verif::twin_fmt_forced_fat16_always_ok", ["C06"], "claims forcing FAT16 always succeeds", "is_ok()"),
)
for bps in (512, 1024, 2048, 4096):
    for ft in ("auto", "fat12", "fat16", "fat32"):
        add(H("boot_sector::verif::fmt_options_%d_%s" % (bps, ft), ["C06"],
              "no panic/overflow; Ok and self-validated => independent validity predicate and requested width; Err => InvalidInput",
              "sector size %d, FAT type %s; symbolic: total sectors (all u32), cluster size 2^9..2^31 or unset, fats 1|2, "
              "root entries (all u16), media, ids, label" % (bps, ft), timeout=900))
for n in ("8192_auto", "16384_auto", "32768_auto", "32768_fat32"):
    add(H("boot_sector::verif::fmt_options_" + n, ["C06"],
          "sector sizes above 4096 that the options builder accepts: no panic, never a volume, only InvalidInput",
          "sector size/type %s; other options symbolic" % n, tier="thorough", timeout=1800))

# ------------------------------------------------------------------ table.rs
T3 = ("12", "16", "32")
TABLE_BOUNDS = ("FAT window of 32 bytes, fully symbolic contents; total_clusters symbolic in 1..=8 (entries 2..10); "
                "FAT%s; unwind 12")
for t in T3:
    add(
        H("table::verif::fat_get_decode" + t, ["C08"],
          "read_fat == specification classification of the raw entry (free / link / bad / every end-of-chain marker 0x..F8-0x..FF; FAT32 high nibble ignored); no write issued",
          "32 symbolic table bytes, every entry index in the window, FAT" + t),
        H("table::verif::fat_set_frame" + t, ["C08", "C10", "C03"],
          "write_fat stores the value so that it decodes back, preserves FAT32 reserved bits, and changes no other entry (FAT12 nibble neighbours)",
          "32 symbolic table bytes, every entry index, every FatValue, FAT" + t),
        H("table::verif::alloc" + t, ["C03", "C05", "C10", "C20"],
          "alloc_cluster: result in [2,total+2) (never reserved/padding), was free, now EOC, linked from prev, first free at/after "
          "hint else wrap-around to 2, all other entries + FAT32 reserved bits unchanged, free count -1, structural invariant kept; "
          "NotEnoughSpace only if no free entry and then nothing is written",
          TABLE_BOUNDS % t + "; hint any u32 >= 2 or None; prev any chain tail or None"),
        H("table::verif::free" + t, ["C03", "C05", "C02"],
          "ClusterIterator::free from a chain head zeroes exactly the chain's clusters, returns its length, count +len, invariant kept, others unchanged",
          TABLE_BOUNDS % t + "; total_clusters <= 5 here; table assumed well-formed (in-range acyclic non-crossing links to allocated clusters)"),
        H("table::verif::truncate" + t, ["C03", "C05", "C02"],
          "ClusterIterator::truncate at any allocated cluster: it becomes EOC, exactly the tail is freed, count +tail, invariant kept",
          TABLE_BOUNDS % t + "; total_clusters <= 5 here; table assumed well-formed"),
        H("table::verif::free" + t + "_deep", ["C03", "C05", "C02"],
          "same as free" + t, TABLE_BOUNDS % t + "; total_clusters <= 8", tier="thorough", timeout=1800),
        H("table::verif::truncate" + t + "_deep", ["C03", "C05", "C02"],
          "same as truncate" + t, TABLE_BOUNDS % t + "; total_clusters <= 8", tier="thorough", timeout=3600),
        H("table::verif::count_free" + t, ["C05"],
          "count_free_clusters == number of zero entries among clusters 2..total+2; read-only",
          TABLE_BOUNDS % t),
        H("table::verif::format_fat" + t, ["C06", "C10"],
          "format_fat: entry 0 = media|ones, entry 1 = end-of-chain pattern, data clusters free, padding entries past the last cluster marked used",
          "FAT of 24 or 48 bytes, total_clusters symbolic, media symbolic, FAT" + t + "; unwind 34", timeout=900),
        H("table::verif::fat_access_large" + t, ["C20"],
          "read_fat/write_fat for every cluster number up to the width's maximum: exactly one access at the reference byte offset (u64) of the entry, 2/4 bytes",
          "every cluster < max_clusters+2 of FAT" + t + " on an offset-logging device"),
    )
add(
    twin("table::verif::twin_fat32_set_clears_reserved", ["C10", "C08"], "claims FAT32 updates clear the reserved bits", ">> 28 == 0"),
    twin("table::verif::twin_alloc_never_wraps", ["C20", "C05", "C03"], "claims allocation never wraps around", "c >= hint"),
    twin("table::verif::twin_truncate_frees_current", ["C03", "C02", "C05"], "claims truncate frees the cluster it is applied to", "== 0"),
    H("table::verif::iter_follows_links16", ["C08", "C02"],
      "ClusterIterator yields exactly the linked clusters of a fragmented/out-of-order chain and stops at any non-link entry",
      "well-formed symbolic FAT16 window, <= 8 clusters, any start cluster"),
    H("table::verif::alloc_scan_start_large32", ["C20"],
      "on a FAT32 table of any size the scan starts at byte offset hint*4 and a hint at/past the end restarts at cluster 2",
      "total_clusters any value up to 0x0FFFFFF4, hint any u32 >= 2 or None; device returns free entries (scan length 1)"),
    H("table::verif::fat_flags_decode", ["C12"],
      "read_fat_flags: FAT16 bit 15/14 and FAT32 bit 27/26 of entry 1 clear => dirty / io_error; FAT12 never; read-only",
      "32 symbolic table bytes, all three widths"),
)
FAULT_B = "concrete 8-entry table (chain 2->3->5, 4 used), symbolic fault position k over ALL device calls (seek/read/write), call budget 40; CBMC path mode"
for t in T3:
    add(
        H("table::verif::fault_free" + t, ["C09"],
          "single fault at the k-th device call during chain free: result is Error::Io(device error); no fault => Ok(3); terminates within the call budget",
          FAULT_B, mode="path"),
        H("table::verif::fault_truncate" + t, ["C09"],
          "single fault at the k-th device call during chain truncate: Error::Io(device error); no fault => Ok(2); terminates",
          FAULT_B, mode="path"),
    )
    for v in ("nohint", "wrap", "full"):
        add(H("table::verif::fault_alloc%s_%s" % (t, v), ["C09"],
              "single fault at the k-th device call during alloc_cluster (%s): Error::Io(device error), never NotEnoughSpace/Ok; no fault => expected result" % v,
              FAULT_B, mode="path"))
add(H("table::verif::fault_count_and_flags", ["C09"],
      "single fault during count_free_clusters / read_fat_flags => Error::Io(device error)", FAULT_B, mode="path"))
add(twin("table::verif::twin_fault_free_always_ok", ["C09"], "claims chain free succeeds at every fault position", "r.is_ok()", mode="path"))

# ------------------------------------------------------------------ fs.rs
GLUE = ("FileSystem value built directly (struct literal) over a windowed device: 8-entry FAT windows (2 copies), 512-byte "
        "clusters, 6 data clusters; table contents / mirroring mode / hint / predecessor CONCRETE per harness, cached "
        "counters and latches symbolic")
add(
    H("fs::verif::fsinfo_roundtrip", ["C04", "C05"],
      "FsInfoSector::serialize puts signatures and counters at offsets 0/484/488/492/508, zero elsewhere; deserialize returns the same values, dirty=false",
      "free count and hint any u32 (or unknown); 512-byte sector; unwind 514"),
    H("fs::verif::fsinfo_parse_total", ["C07", "C05", "C20"],
      "FsInfoSector::deserialize on arbitrary signature/counter words never panics, rejects iff a signature is wrong, drops reserved values; "
      "validate_and_fix keeps free<=total and 2<=hint<=total+2 only",
      "all 2^160 values of the five words x every total_clusters up to the FAT32 maximum"),
    H("fs::verif::diskslice_mirror_write", ["C10", "C11"],
      "DiskSlice::write issues exactly `mirrors` writes at begin+offset+i*size with the same payload, clipped to the slice; nothing when clipped to 0",
      "begin <= 2^42, size <= 2^41, offset <= size, len <= 8, mirrors 1..=3, all symbolic"),
    H("fs::verif::diskslice_read_seek_bounds", ["C11"],
      "DiskSlice::seek (Start/Current/End, any i64) succeeds iff the target is in [0,size], else InvalidInput and no move; read stays inside [begin, begin+size]",
      "begin,size <= 2^42, any offset, any seek argument, read len <= 4"),
    H("fs::verif::fat_slice_select", ["C08", "C10"],
      "one table write reaches all `fats` copies starting at the first FAT when mirroring is on, and only copy (flags & 0xF) when off",
      "symbolic BPB (sector size 512|4096, fats 1..=3, any sectors_per_fat / reserved sectors within the 32-bit range, any flags with active < fats)"),
    H("fs::verif::set_dirty_step", ["C12", "C11", "C13"],
      "set_dirty_flag: at most one 1-byte write at 0x25/0x41; value = mount byte with dirty bit as requested, no mount-time bit cleared; no write when unchanged",
      "all three widths, every mount status byte, every consistent current state, dirty requested true/false"),
    H("fs::verif::unmount_restores_status", ["C12"],
      "unmount after modifications writes back exactly the mount-time status byte (nothing if it was dirty at mount)",
      "all three widths, every mount status byte"),
    H("fs::verif::adapter_write_sets_dirty", ["C12"],
      "a non-empty write through FsIoAdapter (FAT / fixed-root updates) leaves the on-disk dirty bit set at return; an empty one changes nothing",
      "all widths, every mount byte, any position, len <= 4"),
    H("fs::verif::read_status_flags_reports_dirty", ["C12", "C13"],
      "read_status_flags = boot-sector dirty bit OR FAT16/32 entry-1 clean-shutdown bit clear; issues no write",
      "symbolic 32-byte FAT window, every status byte, all widths"),
    H("fs::verif::fsinfo_flush_region", ["C05", "C04", "C11", "C13"],
      "flush_fs_info: FAT32 and dirty => 512 bytes at fs_info_sector*bps carrying the cached count and hint (witness byte over the 8 counter bytes), latch cleared; "
      "otherwise no write at all (never on FAT12/16)",
      "all widths, sector size 512|4096, any fs_info_sector in the reserved area, symbolic cached values"),
    H("fs::verif::unmount_readonly_session_writes_nothing", ["C13"],
      "with FS-info clean and the status byte as at mount, unmount issues no write and keeps that state",
      "all widths, every mount status byte (clean or dirty), symbolic cached counters"),
    twin("fs::verif::twin_unmount_never_writes", ["C13", "C12"], "claims unmount never writes even after a modification", "total_writes == 0"),
    H("fs::verif::fs_offset_from_cluster", ["C11", "C20"],
      "FileSystem::offset_from_cluster / bytes_from_clusters equal the u64 reference for every accepted geometry and cluster; the cluster ends inside the volume",
      "every BPB accepted by validate x every valid cluster (covers offsets >= 1 TiB and the last cluster)"),
)
for t in T3:
    for c in ("mirror_zero", "mirror", "active0_zero", "active1", "hint2", "hint_wrap", "hint_end", "full"):
        add(H("fs::verif::fs_alloc%s_%s" % (t, c), ["C05", "C10", "C11", "C12"],
              "FileSystem::alloc_cluster: cached count stays exact (or unknown), hint = c+1 in [2,total+2], copies identical / inactive copy untouched, "
              "zeroing covers exactly the new cluster, only other write is the 1-byte status update, dirty set; full => NotEnoughSpace and nothing changes",
              GLUE + "; case " + c))
    for c in ("free%s_chain", "free%s_single", "truncate%s_head", "truncate%s_mid", "truncate%s_tail"):
        add(H("fs::verif::fs_" + c % t, ["C05", "C10", "C12"],
              "free_cluster_chain / truncate_cluster_chain: table count grows by exactly the freed clusters, cached count follows, copies identical, only the status byte written elsewhere",
              GLUE))
    for c in ("some_free", "full"):
        add(H("fs::verif::stats%s_%s" % (t, c), ["C05", "C13"],
              "stats(): cached count returned without touching the device; unknown => recount == zero entries of the table, cached; never writes, never sets dirty",
              GLUE))

# ------------------------------------------------------------------ dir.rs / dir_entry.rs
add(
    H("dir::verif::sng_new_total", ["C15"],
      "ShortNameGenerator::new (runs before name validation in create_file/create_dir/rename) never panics",
      "every valid UTF-8 string of 0..=5 bytes (empty, multi-byte first character, dots/spaces only, ...); memchr stubs",
      stubs=True),
)

# ------------------------------------------------------------------ file.rs
FILE_B = ("File value built directly over a windowed device (real FAT window, payload tracked by one arbitrary watched address): "
          "512-byte clusters, file chain 2->3->5 (fragmented), neighbour cluster 4 in use, 6/7 free; cursor CLUSTER INDEX concrete per "
          "harness, position inside the cluster / file size inside its last cluster / buffer length <= 600 / buffer bytes / clock symbolic")
for n, props in (("read16_start", None), ("read16_c0", None), ("read16_c1", None), ("read16_c2_tail", None), ("read12_c1", None),
                 ("read32_c1_accessed", ["C02", "C18"]), ("read16_single_cluster", None), ("read16_empty_file", None)):
    add(H("file::verif::" + n, props or ["C02", "C13"],
          "File::read returns min(len, left in cluster, left in file) bytes from the device address of file position p (witness byte), advances the "
          "cursor, keeps the representation invariant, writes nothing and leaves nothing pending (access date stamped from the provider only when enabled)",
          FILE_B))
for n in ("write16_start", "write16_c0", "write16_c1_dirty_mount", "write16_c2_tail_and_alloc", "write12_c2_tail_and_alloc",
          "write32_c2_tail_and_alloc", "write16_empty_file", "write12_single_cluster", "write32_c0"):
    add(H("file::verif::" + n, ["C02", "C11", "C12", "C18"],
          "File::write stores min(len, left in cluster) bytes at the cursor: one payload write inside the target cluster (existing, or the first free one "
          "linked to the chain end / recorded as first cluster), status byte written BEFORE it when the volume was clean, FAT copies identical and "
          "otherwise unchanged, size = max(size, new offset), modification stamp from the provider, creation stamp untouched, invariant kept",
          FILE_B))
for n in ("seek16_from_start", "seek16_from_c0", "seek16_from_c2", "seek12_from_c1", "seek32_from_c1", "seek16_empty_file"):
    add(H("file::verif::" + n, ["C02"],
          "File::seek(Start|Current|End, any 64-bit value): negative target => InvalidInput and no move; beyond the end clamps to the size; result "
          "re-establishes the invariant (cursor cluster = chain[(offset-1)/cluster], previous cluster on a boundary); no write",
          FILE_B))
for n in ("truncate16_at_zero", "truncate16_c0", "truncate16_c1", "truncate16_c2", "truncate12_c0", "truncate32_c1", "truncate32_at_zero"):
    add(H("file::verif::" + n, ["C02", "C03", "C05", "C12", "C04"] if n.endswith("at_zero") else ["C02", "C03", "C05", "C12"],
          "File::truncate: size = offset, chain cut to ceil(offset/cluster) clusters (kept links intact, new tail EOC, rest freed, empty file owns no "
          "cluster), other clusters untouched, FAT copies identical, no payload write; the dirty bit is on the device whenever the size changed",
          FILE_B))
add(
    H("file::verif::flush_writes_entry_then_flushes_device", ["C14", "C13", "C04"],
      "File::flush: pending metadata => exactly the 32 entry bytes at the entry position (witness byte over all 32) and then a device flush after the "
      "last write; nothing pending => no write; dirty bit untouched", "all widths, symbolic size/new size/timestamps"),
    H("file::verif::drop_writes_entry_then_flushes_device", ["C14", "C13", "C04"],
      "same through the destructor", "all widths, symbolic size/new size/timestamps"),
    twin("file::verif::twin_flush_never_writes", ["C14", "C13", "C04"], "claims flush never writes", "total_writes == 0"),
    twin("file::verif::twin_write_never_allocates", ["C02", "C11"], "claims a write at the end of the chain allocates nothing", "fat_writes == 0"),
    H("file::verif::extents16", ["C04", "C20"], "File::extents = clusters of the chain in order at their device offsets, sizes sum to the file size", FILE_B),
    H("file::verif::extents12_two_clusters", ["C04"], "same, two clusters, FAT12", FILE_B),
    H("file::verif::extents32_empty", ["C04"], "an empty file has no extent", FILE_B),
)

# ------------------------------------------------------------------ dir_entry.rs
add(
    H("dir_entry::verif::slot_roundtrip", ["C04", "C08", "C17"],
      "DirEntryData::deserialize of ANY 32 bytes: no failure/panic, every field at the specification's offset, long/short classification by attribute, "
      "accessors (deleted/end/volume/dir/size/first cluster with and without the high word, timestamps, short name) total; serialize reproduces the bytes "
      "except the two undefined attribute bits", "all 2^256 slot contents"),
    H("dir_entry::verif::short_name_decode", ["C08", "C17"],
      "ShortName::new: base/extension trimmed of trailing spaces, dot only with extension, 0x05 -> 0xE5, length <= 12", "all 2^88 raw short names"),
    H("dir_entry::verif::lowercase_flags", ["C08"],
      "lower-case flags (reserved byte bits 3/4) lower-case base and extension independently, ASCII letters only", "all raw names and flag bytes"),
    H("dir_entry::verif::entry_time_fields", ["C18"],
      "set_created/modified/accessed -> serialize -> deserialize -> getters: creation at 10 ms, modification at 2 s, access at 1 day; no other field moves",
      "every valid date and time (full domain) x arbitrary other entry contents"),
    H("dir_entry::verif::renamed_keeps_body", ["C18", "C01"], "renamed() changes the 11 name bytes only", "arbitrary entry"),
    H("dir_entry::verif::editor_flush_writes_entry_once", ["C11", "C13", "C14", "C18"],
      "DirEntryEditor: setters latch exactly on change; flush writes exactly [pos, pos+32) with the serialized entry iff latched, clears the latch, "
      "never calls device flush; a second flush writes nothing", "arbitrary entry, position <= 2^43, symbolic new size / timestamp"),
    H("dir_entry::verif::editor_first_cluster", ["C02", "C04", "C08"],
      "set_first_cluster stores the high word only on FAT32, latches only on change, first_cluster() returns it", "all widths, any cluster"),
    H("dir_entry::verif::upper_ascii_agree", ["C19", "C15"],
      "char_to_uppercase(c) for c < 0x80 yields exactly the ASCII upper-case character (one char)", "all 128 ASCII values; run in unicode and non-unicode build"),
    H("dir_entry::verif::upper_ascii_agree", ["C19"],
      "same in the build without the unicode feature", "all 128 ASCII values", build="nounicode"),
)

# ------------------------------------------------------------------ dir.rs: long names (both builds)
LFN_LENS = (("len1", 1), ("len5", 1), ("len12", 1), ("len13", 1), ("len14", 2), ("len26", 2), ("len27", 3), ("len39", 3))
for build in ("alloc", "noalloc"):
    for nm, cnt in LFN_LENS:
        quick = nm in ("len1", "len13", "len14", "len26")
        add(H("dir::verif::lfn_generate_and_decode_" + nm, ["C03", "C04", "C15", "C19"],
              "LfnEntriesGenerator slots parsed independently (count, order bytes with 0x40 on the first, attr 0x0F, zero type/cluster, checksum, "
              "terminator + 0xFFFF padding, units at the specification's offsets) and LongNameBuilder decodes them back to the identical units",
              "name length %s (%d slot(s)) concrete; all units, checksum, short name symbolic; build %s" % (nm[3:], cnt, build),
              build=build, tier="quick" if quick else "thorough", timeout=900))
add(
    H("dir::verif::lnb_step_inductive", ["C17", "C19"],
      "LongNameBuilder::process from ANY state satisfying the invariant (index <= k <= 20, len = 13k, index 0 <=> empty) with ANY slot: no panic / "
      "out-of-bounds, invariant re-established (covers runs of any length by induction)",
      "fixed-buffer build; arbitrary 260-unit buffer, arbitrary slot; unwind 264", build="noalloc"),
    H("dir::verif::lnb_finish_bounded", ["C17", "C19"],
      "finishing from ANY invariant state: name <= 255 units; empty unless the run was complete (index 1) and the checksum matched",
      "fixed-buffer build; arbitrary state and short name", build="noalloc"),
    H("dir::verif::lnb_sequences_2", ["C17", "C19", "C08"],
      "ANY 2 long-name slots (orders 0..3 with/without 0x40, any checksum/units) + short entry vs. an independent definition of a well-formed run: "
      "broken => empty name (short-name fallback); well-formed => exactly the run's units, only trailing 0/0xFFFF stripped",
      "fixed-buffer build", build="noalloc", timeout=900),
    H("dir::verif::lnb_sequences_3", ["C17", "C19", "C08"],
      "same with 3 slots", "fixed-buffer build", build="noalloc", timeout=900),
    twin("dir::verif::twin_lnb_always_yields_name", ["C17", "C19"], "claims a one-slot run is always accepted", "len() > 0", build="noalloc"),
)

# alloc-build long-name decoder: broken patterns, 20-slot bound, buffer contract
for nm, pat in (("gap", "[0x43,0x01]"), ("incomplete3", "[0x43,0x02,0x02]"), ("longer_then_shorter", "[0x43,0x41,0x00]"), ("no_last_flag", "[0x02,0x01]")):
    add(H("dir::verif::lnb_pattern_" + nm, ["C17", "C19"],
          "alloc build: broken long-name run with order bytes %s => empty name (short-name fallback); same oracle as lnb_sequences_*" % pat,
          "concrete order pattern; checksums, units, short name symbolic"))
add(
    H("dir::verif::lnb_twenty_slots", ["C17"],
      "alloc build: a complete 20-slot run (orders 0x54,19..1) never yields more than 255 units",
      "concrete orders, symbolic units/checksum/short name; unwind 264", tier="thorough", timeout=2400),
    H("dir::verif::lfn_buffer_contract", ["C19", "C17"],
      "alloc build: Vec-backed LfnBuffer: set_len keeps the prefix and zero-fills growth, len/as_ucs2_units agree, clear empties, from_ucs2_units copies",
      "sizes 0/13/26/5 concrete, contents symbolic"),
    H("dir::verif::lfn_checksum_spec", ["C16", "C03", "C17"], "lfn_checksum == the specification's rotate-and-add checksum", "all 2^88 short names"),
    H("dir::verif::split_path_spec", ["C15"],
      "split_path == reference: surrounding slashes stripped, split at the first inner slash", "every path of <= 6 bytes over {'/','a','.'}; memchr stubs", stubs=True),
    H("dir::verif::validate_name_chars", ["C15"],
      "validate_long_name accepts exactly the non-empty strings whose characters are all in the documented set; error kind as documented; no panic",
      "every valid UTF-8 string of <= 4 bytes (all BMP code points as a single character, astral ones rejected)"),
    H("dir::verif::validate_name_len_small", ["C15"], "accepted iff length >= 1", "every length 0..=12 (symbolic)"),
)
for n, ok in (("0", "rejected"), ("1", "accepted"), ("255", "accepted"), ("256", "rejected"), ("300", "rejected")):
    add(H("dir::verif::validate_name_len_" + n, ["C15"], "a %s-byte name is %s (name-length error when rejected)" % (n, ok), "concrete length " + n))
for nm, what in (("alias_is_legal", "generate(): every byte of the alias is legal (upper case/digits/allowed punctuation, no leading/embedded space, no dot, not 0xE5/0x00); "
                  "failure only when all 13 numeric tails are taken"),
                 ("alias_never_equals_existing", "after add_existing(e) (any 11 bytes) generate() never returns e; bitmaps only grow (uniqueness by induction over the directory scan)"),
                 ("alias_retry_progress", "next_iteration changes only the hash (+1) and clears both bitmaps; generation then succeeds; u16_to_hex is exact upper-case hex")):
    add(H("dir::verif::" + nm, ["C16"], what,
          "every name accepted by validate_long_name of 1..=5 bytes (incl. multi-byte), every collision state (bitmaps, exact-match flag, hash); memchr stubs",
          stubs=True, timeout=3600, tier="thorough" if nm == "alias_never_equals_existing" else "quick"),
        H("dir::verif::" + nm + "_8bytes", ["C16"], what, "same with names of 1..=8 bytes", stubs=True, tier="thorough", timeout=7200))
add(twin("dir::verif::twin_alias_generate_never_fails", ["C16"], "claims alias generation can never fail", "is_ok()", stubs=True))

# ------------------------------------------------------------------ single-fault injection above the table level (C09)
FAULT_FS = ("FileSystem/File value built directly over the windowed device, concrete 8-entry table and concrete operation arguments; symbolic fault "
            "position k over ALL device calls (seek/read/write/flush) of the operation; device-call budget 120; CBMC path mode")
for n, what in (("fault_fs_alloc12", "alloc_cluster(zeroing)"), ("fault_fs_alloc32", "alloc_cluster(zeroing)"), ("fault_fs_free16", "free_cluster_chain"),
                ("fault_fs_truncate12", "truncate_cluster_chain"), ("fault_fs_truncate32", "truncate_cluster_chain"), ("fault_fs_stats16", "stats() recount"),
                ("fault_fs_status_flags32", "read_status_flags"), ("fault_fs_flush_info32", "flush_fs_info"), ("fault_fs_unmount32", "unmount"),
                ("fault_fs_unmount16", "unmount"), ("fault_fs_set_dirty12", "set_dirty_flag")):
    add(H("fs::verif::" + n, ["C09", "C12"] if n == "fault_fs_set_dirty12" else ["C09"],
          "single fault at the k-th device call of FileSystem::%s => Error::Io(device error); no fault => success; terminates" % what
          + ("; a failed status update is not remembered as done (cache = device)" if n == "fault_fs_set_dirty12" else ""),
          FAULT_FS, mode="path"))
add(twin("fs::verif::twin_fault_fs_alloc_always_ok", ["C09"], "claims alloc_cluster succeeds at every fault position", "is_ok()", mode="path"))
for n, what in (("fault_file_read16", "read starting on a cluster boundary"), ("fault_file_write_alloc12", "write that allocates a cluster"),
                ("fault_file_write_alloc32", "write that allocates a cluster"), ("fault_file_write_mid16", "write inside the file"),
                ("fault_file_seek12", "seek over two clusters"), ("fault_file_truncate16", "truncate"), ("fault_file_flush32", "flush with pending metadata"),
                ("fault_file_extents16", "extents iteration")):
    add(H("file::verif::" + n, ["C09"], "single fault at the k-th device call of File %s => Error::Io(device error); no fault => success; terminates" % what,
          FAULT_FS, mode="path"))
for nm in ("fits", "long", "one_char", "leading_dot", "non_ascii", "lossy"):
    add(H("dir::verif::alias_unique_" + nm, ["C16"],
          "uniqueness lemma for a fixed name of this shape: after add_existing(e) the generated alias differs from e and is legal",
          "concrete name x every collision state (bitmaps, flag, hash) x every 11-byte existing entry; memchr stubs", stubs=True,
          tier="thorough" if nm == "one_char" else "quick", timeout=3600 if nm == "one_char" else 900))


# ------------------------------------------------------------------ dirops.rs (directory-level steps on a windowed fixed root directory)
# The 128-byte directory window is above CBMC's default field-sensitivity threshold (64): without this option constant
# slot bytes are not propagated and every slot is explored as if it were arbitrary (47 s vs > 40 min for remove_file_step).
# Used only where the window is mostly CONCRETE (namespace steps on a populated root): with arbitrary slot contents the
# option turns every access into a 128-way case split and is slower (find_free_entries_spec: 214 s without, > 20 min with).
FS128 = ("--max-field-sensitivity-array-size", "128")
ASSUMPTIONS["C01"] = [
    "directory-level obligations are one-step: a FileSystem is constructed directly over the windowed device (FAT12, fixed "
    "root directory whose first four 32-byte slots are a real window of arbitrary bytes, everything behind reads as zero); "
    "histories are covered only through the stated induction arguments",
    "harnesses run in the reduced feature builds named per harness (bare = `std` only: 8.3 names, ASCII folding; noalloc = "
    "fixed long-name buffer); the Dir/DirIter source is shared by all builds apart from the cfg'd long-name pieces",
]
add(
    H("dir::verif::ops::find_free_entries_spec", ["C01", "C03", "C05"],
      "Dir::find_free_entries(n): the position returned overwrites no live slot, leaves no gap in front of the end marker, is the "
      "FIRST fit (an exact-fit run of deleted slots is reused), and no write is issued",
      "fixed root, 4 slots whose kind-deciding bytes (first byte, attribute byte) are arbitrary, other bytes zero; zero tail; n in 1..=3",
      build="bare", timeout=1500),
    H("dir::verif::ops::find_free_entries_spec_all_bytes", ["C01", "C03", "C05"],
      "same with all 128 bytes of the window arbitrary", "fixed root, 4 arbitrary slots (all 2^1024 contents) + zero tail, n in 1..=3",
      build="bare", timeout=1800),
)
for s in range(4):
    add(H("dir::verif::ops::diriter_step_from%d" % s, ["C01", "C08", "C13", "C17"],
          "one DirIter::next() from slot %d: returns exactly the first slot the specification calls an entry (skipping deleted, "
          "label and long-name slots, stopping at the end marker), with its storage position and a slot range starting right "
          "behind the last skipped slot; never panics, never writes" % s,
          "fixed root, 4 arbitrary slots (all contents), 8.3 build", build="bare", timeout=1200))
    if s != 2:
        # only the step from slot 2 ran to completion (22 min under load); from slots 0 and 1 the long-name step needs > 20 min and
        # > 10 GB with the corrected oracle (from 3 it adds nothing): not registered. The cheap concrete patterns
        # diriter_run_cut_by_deleted / _by_label and the builder-level lnb_* harnesses carry the quick tier.
        continue
    add(H("dir::verif::ops::diriter_step_lfn_from%d" % s, ["C17", "C08", "C19", "C01"],
          "same step with long names: a long name is attached iff the slots directly in front of the entry are a well-formed run "
          "for THIS entry (orders n|0x40..1, checksum of this short name); otherwise short-name fallback - no partial or "
          "foreign long name, e.g. from a run that belonged to a deleted entry",
          "fixed root, 4 arbitrary slots, long-name orders restricted to 0..=3 (with/without 0x40), fixed-buffer build",
          build="noalloc", timeout=3600, tier="thorough", mem=12))

# (fixed-buffer build only: in the alloc build the accepting path of the Vec-backed builder runs CBMC out of memory, as in round 1)
for b_ in ("noalloc",):
    add(H("dir::verif::lnb_twenty_slots_exact", ["C17", "C15", "C19", "C01"],
          "a well-formed 20-slot run carrying the longest legal name decodes to exactly its 255 units iff the checksum matches "
          "the short name (else nothing): the 20th slot is accepted, lengths 248..=255 are not truncated",
          "concrete orders 0x54,19..1, symbolic units/checksum/short name, %s build; unwind 264" % b_, build=b_, timeout=2400,
          tier="quick" if b_ == "noalloc" else "thorough"))

EQ_CASES = ("sharp_s_upper", "sharp_s_lower", "sharp_s_self", "sharp_s_prefix", "mixed_expand", "ligature_fi", "dz_title", "dotted_i",
            "ascii", "longer_query", "shorter_query", "e_acute")
# (build without the unicode tables only: with them one concrete pair did not finish in 40 min / 8 GB - the flatten loop of
# `flat_map(to_uppercase)` is unwound to the bound with a 1500-entry table search per iteration; C15_b therefore stays missed)
for b_ in ("nounicode",):
    for c_ in EQ_CASES:
        add(H("dir_entry::verif::eq_case_" + c_, ["C15", "C19"],
              "DirEntry::eq_name on a concrete name pair differing only by case (incl. length-changing Unicode mappings): matches with the "
              "unicode feature, ASCII-only folding without it; never matches a proper prefix/extension; the alias always matches",
              "concrete pair, %s build" % b_, build=b_, timeout=3600, tier="thorough"))
# eq_name_ascii (symbolic 2-character names through eq_name) is not registered: > 27 min without a verdict in the build without unicode tables.

# write_entry_frame / write_entry_frame_lfn (entry creation over arbitrary slot kinds) are NOT registered: find_free_entries
# returns its stream from several return sites, the merged DirRawStream value has its variant tag in a niche of the payload, and
# from then on CBMC explores the File-backed variant (cluster-chain walks, allocation) next to the fixed-root one for every
# read/seek/write: > 25 min and 9-13 GB, never finished here (DESIGN 7.4). The harness text stays in dirops.rs.
NS_OPS = (("remove_file_step", ["C01", "C03", "C05", "C12"], "remove(\"a\") deletes exactly A's slot (first byte 0xE5), frees exactly A's chain in both FAT copies, sets the dirty bit first"),
          ("remove_missing_step", ["C01"], "remove of a missing name: NotFound, nothing written"),
          ("rename_invalid_name_no_side_effect", ["C01", "C15"], "rename to an unacceptable name: unsupported-character error and NO side effect (source entry intact, nothing written)"),
          ("create_dir_invalid_name_no_side_effect", ["C01", "C15", "C05"], "create_dir with an unacceptable name: unsupported-character error and NO side effect (no cluster allocated, nothing written)"),
          ("rename_onto_existing_step", ["C01"], "rename onto an existing name: AlreadyExists, nothing written"))
for nm_, props_, what_ in NS_OPS:
    add(H("dir::verif::ops::" + nm_, props_, what_, "populated fixed root (A: 3 clusters, B: 1 cluster), concrete names, symbolic entry bodies, 8.3 build; memchr stubs",
          build="bare", stubs=True, timeout=2400, cbmc_args=FS128))

add(H("fs::verif::fs_options_builders", ["C13", "C18"],
      "FsOptions builders set exactly the option they name (access-date updating off by default, untouched by strict() and by the "
      "clock / code-page setters, in any order)", "all combinations of the two flags"))

add(
    H("file::verif::flush_retry_after_fault16", ["C14", "C09"],
      "flush / single device fault at ANY call position / flush again: the retry succeeds and afterwards the new size is on the device at the "
      "entry position, nothing is pending, device flushed after the last write (a failed write-back does not drop the pending entry)",
      FAULT_FS, mode="path"),
    H("file::verif::flush_then_drop_after_fault32", ["C14", "C09"],
      "same with the handle dropped after the failed flush (the destructor is the retry)", FAULT_FS, mode="path"),
)

for b_ in ("alloc", "nounicode"):
    add(H("dir::verif::copy_short_name_part_spec", ["C16", "C19"],
          "copy_short_name_part == byte-level reference: spaces/dots dropped, listed ASCII copied with ASCII upper-casing, every other "
          "character (every non-ASCII one, whatever its Unicode upper case) becomes one '_'; fits/lossy flags as specified",
          "every valid UTF-8 string of <= 5 bytes into a 3-byte field, %s build" % b_, build=b_, timeout=1200))

# create_dir_dot_entries / create_file_step / rename_file_step: written, but 25+ min and 7-10 GB each (they go through write_entry,
# see above); registered only if a run to completion was observed (see DESIGN 7.4).
PENDING_CREATE = '''add(
    H("dir::verif::ops::create_dir_dot_entries", ["C01", "C03", "C18", "C12", "C10"],
      "create_dir in an empty root: new cluster = chain end in both FAT copies, zeroed before use, '.' -> itself, '..' -> 0 (root parent), "
      "end marker behind them, provider stamps on the dot entries, dirty bit first, parent entry written into the root region",
      "window = first four slots of the new directory's cluster (stale garbage before); symbolic clock; 8.3 build; memchr stubs",
      build="bare", stubs=True, timeout=2400, cbmc_args=FS128),
    H("dir::verif::ops::create_file_step", ["C01", "C16", "C18", "C12"],
      "create_file of a new name takes the first free slot with an empty plain-file entry carrying the provider's stamps and leaves every other slot "
      "and the FAT untouched; create_file of an existing name (any case) opens it and writes nothing",
      "populated fixed root, concrete names, symbolic clock and entry bodies; 8.3 build; memchr stubs",
      build="bare", stubs=True, timeout=2400, cbmc_args=FS128),
)
'''

add(H("fs::verif::format_volume_regions12", ["C06", "C11", "C10"],
      "format_volume over stale garbage: every byte of boot sector, BOTH FAT copies and the whole root directory region is written (watched "
      "address), nothing behind the volume; root region zero, free part of each FAT copy zero, reserved FAT entries = media/EOC pattern, boot signature, "
      "BPB geometry bytes as derived", "373-sector FAT12 volume (338 clusters, one padding entry), default options, two FAT copies; arbitrary watched address in the metadata area",
      timeout=1800))

for b_ in ("alloc", "nounicode"):
    for c_ in ("sharp_s", "dotless_i", "ligature"):
        add(H("dir::verif::copy_short_name_part_" + c_, ["C16", "C19"],
              "a concrete non-ASCII character whose Unicode upper case is ASCII / multi-character becomes exactly one '_' in the alias "
              "(alias bytes independent of the case table)", "concrete 2-character input, %s build" % b_, build=b_, timeout=900))

add(H("dir::verif::alias_unique_any_state", ["C16"],
      "uniqueness lemma over ALL generator states (arbitrary 8.3 image, base-name length, flags, bitmaps, retry hash): after add_existing(e) the "
      "generator never yields e - including the case where e is the name's own 8.3 image and that image is a numbered form",
      "every generator state x every 11-byte entry", timeout=1800))

for n_ in ("diriter_run_cut_by_deleted", "diriter_run_cut_by_label"):
    add(H("dir::verif::ops::" + n_, ["C17", "C08", "C01"],
          "a complete long-name run followed by a deleted short entry / volume label and then a live entry with the run's checksum: the live entry "
          "is listed WITHOUT the foreign long name, its slot range starts behind the skipped slot",
          "concrete slot kinds and order byte, symbolic units and short name; fixed-buffer build", build="noalloc", timeout=1500,
          cbmc_args=FS128))

add(twin("dir::verif::ops::twin_find_free_always_appends", ["C01", "C03", "C05"],
         "claims new entries are always appended at the end marker (holes never reused)", "pos == e as u64 * 32", build="bare", timeout=1500))

add(twin("dir::verif::twin_validate_accepts_every_ascii", ["C15"],
         "claims every one-character ASCII name is accepted", "validate_long_name::<()>(name).is_ok()"))
